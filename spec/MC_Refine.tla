------------------------------ MODULE MC_Refine ------------------------------
(***************************************************************************)
(* Refinement: the implementation-shaped machine of RuleSet.tla / Eval.tla *)
(* (interleaved at the grain of its micro-steps, MC_C12 with Grain =       *)
(* "step") implements the abstract cache protocol CacheAbs.                *)
(*                                                                         *)
(* The mapping reads the abstract variables off the concrete state:        *)
(*   status   of e      "idle" before Start; "run" while the future lives  *)
(*   count    of f      the function's own invocation counter              *)
(*   pending  call of e the machine's mode "call" (entered, not returned)  *)
(*   cached   (e, f, a) e's cache has an entry for (f, a) -> the ordinal   *)
(*                      of e's first successful, completed invocation of   *)
(*                      f on a (-1 if there is none: then no abstract step *)
(*                      explains the entry and TLC reports the transition) *)
(*   okInv, firstOk     counted in the global invocation log               *)
(* TLC checks Abs!Spec: the initial states map to Abs!Init and every       *)
(* concrete transition maps to Abs!Next or leaves the abstract variables   *)
(* unchanged.  CacheAbs's invariants - inductive for histories of ANY      *)
(* length (Apalache, MC_CacheAbsApa) - therefore hold of this machine,     *)
(* which is the one bound to the code by replay and by trace validation.   *)
(* CacheHoldsFirstResult closes the abstraction "result = ordinal".        *)
(***************************************************************************)
EXTENDS MC_C12

REv == 1..MaxEvals
RFn == {S("f"), S("g"), S("h"), S("c")}
RCacheable == {S("f"), S("c")}
RArg == {I(1), I(2), I(3), I(5), I(10)}      \* every argument the universes pass (checked: Covered)
RNoF == <<>>
RNoA == VNone
RKey == REv \X RFn \X RArg

FnIx(f) == CHOOSE i \in 1..Len(rsv.funcs) : rsv.funcs[i].name = f
Running(e) == e <= Len(evals) /\ evals[e].status \in {"run", "ready"}
Pending(e) == Running(e) /\ evals[e].status = "run" /\ evals[e].ms.mode.m = "call"

AStatus == [e \in REv |-> IF e > Len(evals) THEN "idle" ELSE IF Running(e) THEN "run" ELSE evals[e].status]
Registered(f) == \E i \in 1..Len(rsv.funcs) : rsv.funcs[i].name = f
ACount == [f \in RFn |-> IF Registered(f) THEN gs.counts[FnIx(f)] ELSE 0]
AInfN == [e \in REv |-> IF Pending(e) THEN evals[e].ms.mode.n ELSE 0]
AInfF == [e \in REv |-> IF Pending(e) THEN rsv.funcs[evals[e].ms.mode.fi].name ELSE RNoF]
AInfA == [e \in REv |-> IF Pending(e) THEN evals[e].ms.mode.arg ELSE RNoA]

\* indices in the global log of e's successful and completed invocations of f on a
OkCalls(e, f, a) ==
  {j \in 1..Len(gs.calls) :
     /\ gs.calls[j].ev = e /\ gs.calls[j].f = f /\ gs.calls[j].arg = a
     /\ FnResult(rsv.funcs[FnIx(f)], a, gs.calls[j].n).ok
     /\ ~(Pending(e) /\ AInfF[e] = f /\ AInfN[e] = gs.calls[j].n)}
MinOf(s) == CHOOSE x \in s : \A y \in s : x <= y
FirstN(e, f, a) == LET c == OkCalls(e, f, a) IN IF c = {} THEN 0 ELSE gs.calls[MinOf(c)].n

AOkInv == [k \in RKey |-> IF Running(k[1]) THEN Cardinality(OkCalls(k[1], k[2], k[3])) ELSE 0]
AFirstOk == [k \in RKey |-> IF Running(k[1]) THEN FirstN(k[1], k[2], k[3]) ELSE 0]
ACached == [k \in RKey |->
              IF Running(k[1]) /\ CacheHas(evals[k[1]].ms.cache, k[2], k[3])
              THEN (LET n == FirstN(k[1], k[2], k[3]) IN IF n = 0 THEN -1 ELSE n)
              ELSE 0]

Abs == INSTANCE CacheAbs WITH Ev <- REv, Fn <- RFn, CacheableFn <- RCacheable, Arg <- RArg, NoF <- RNoF, NoA <- RNoA,
                              status <- AStatus, cached <- ACached, count <- ACount,
                              infF <- AInfF, infA <- AInfA, infN <- AInfN, okInv <- AOkInv, firstOk <- AFirstOk
Refines == Abs!Spec
AbsInv == Abs!IndInv /\ Abs!Props

\* the mapping loses nothing: every function and argument the machine meets is in the abstract universe,
\* every cache entry belongs to a registered cacheable function
Covered == /\ \A j \in 1..Len(gs.calls) : gs.calls[j].f \in RFn /\ gs.calls[j].arg \in RArg
           /\ \A e \in 1..Len(evals) : \A i \in 1..Len(evals[e].ms.cache) :
                evals[e].ms.cache[i].f \in RCacheable /\ evals[e].ms.cache[i].a \in RArg
           /\ \A i \in 1..Len(rsv.funcs) : rsv.funcs[i].name \in RFn /\ (rsv.funcs[i].cacheable <=> rsv.funcs[i].name \in RCacheable)
\* "the result is abstracted to the ordinal": what the cache holds IS the result of that invocation
CacheHoldsFirstResult ==
  \A e \in 1..Len(evals) : Running(e) => \A i \in 1..Len(evals[e].ms.cache) :
     LET en == evals[e].ms.cache[i] n == FirstN(e, en.f, en.a) IN
     n # 0 /\ FnResult(rsv.funcs[FnIx(en.f)], en.a, n) = Ok(en.v)
\* one entry per key (the cache is a map)
CacheIsMap == \A e \in 1..Len(evals) : \A i, j \in 1..Len(evals[e].ms.cache) :
     (evals[e].ms.cache[i].f = evals[e].ms.cache[j].f /\ evals[e].ms.cache[i].a = evals[e].ms.cache[j].a) => i = j
=============================================================================
