------------------------------- MODULE Grammar -------------------------------
(***************************************************************************)
(* The syntax of the rule language: ONE fixed precedence / associativity   *)
(* table (C07), given as data, and a reference parser driven by it.        *)
(*                                                                         *)
(* Levels, loosest to tightest (all binary levels left-associative):       *)
(*   if/then/else  <  and or  <  = == != > < >= <=  <  + -  <  * / %        *)
(*   <  & | ^  <  contains in  <  unary - !  <  .field .index  <  atoms    *)
(* contains/in take operands at access level on both sides, one per pair   *)
(* (no chaining, no unary operand);  `x in y` is `y contains x`.           *)
(*                                                                         *)
(* Parse(toks)  = [ok |-> TRUE, t |-> tree] | [ok |-> FALSE, at |-> pos]   *)
(* where pos is the index of the offending token (Len+1: unexpected end).  *)
(* The parser has the correct-prefix property: it fails at the first token *)
(* that cannot continue any sentence (as the LR parser of the code does).  *)
(***************************************************************************)
EXTENDS Lexer, Eval

\* binary operator table: token class -> <<level, node kind>>
BinLevel(c) ==
  CASE c \in {"and", "or"} -> 1
    [] c \in {"=", "==", "!=", ">", "<", ">=", "<="} -> 2
    [] c \in {"+", "-"} -> 3
    [] c \in {"*", "/", "%"} -> 4
    [] c \in {"&", "|", "^"} -> 5
    [] OTHER -> 0
BinNode(c) ==
  CASE c = "and" -> "and" [] c = "or" -> "or"
    [] c = "=" -> "eq" [] c = "==" -> "eq" [] c = "!=" -> "neq" [] c = ">" -> "gt" [] c = "<" -> "lt"
    [] c = ">=" -> "gte" [] c = "<=" -> "lte"
    [] c = "+" -> "add" [] c = "-" -> "sub" [] c = "*" -> "mult" [] c = "/" -> "div" [] c = "%" -> "rem"
    [] c = "&" -> "bitand" [] c = "|" -> "bitor" [] c = "^" -> "bitxor"
MaxBinLevel == 5

\* built-in function keywords -> node kind (alternative spellings denote the same node)
FuncNode(c) ==
  CASE c = "int" -> "int" [] c = "float" -> "float" [] c = "dec" -> "dec"
    [] c = "date_time" -> "datetime" [] c = "datetime" -> "datetime" [] c = "duration" -> "duration"
    [] c = "is_some" -> "some" [] c = "some" -> "some" [] c = "is_none" -> "none" [] c = "none" -> "none"
    [] c = "to_upper" -> "uppercase" [] c = "uppercase" -> "uppercase"
    [] c = "to_lower" -> "lowercase" [] c = "lowercase" -> "lowercase"
    [] c = "trim" -> "trim" [] c = "round" -> "round" [] c = "floor" -> "floor" [] c = "fract" -> "fract"
    [] c = "year" -> "year" [] c = "month" -> "month" [] c = "week" -> "week" [] c = "day" -> "day"
    [] c = "hour" -> "hour" [] c = "minute" -> "minute" [] c = "second" -> "second"
    [] OTHER -> ""
IsFuncKw(c) == FuncNode(c) # ""

\* list indices are native naturals when small (all the evaluator ever needs), else [k |-> "I", big |-> magnitude]
IndexOfMag(m) == IF Len(m) <= 2 THEN [k |-> "i", i |-> MToNat(m)] ELSE [k |-> "I", big |-> m]

Cls(toks, p) == IF p <= Len(toks) THEN toks[p].c ELSE "$EOF"
POk(t, p) == [ok |-> TRUE, t |-> t, p |-> p]
PFail(p) == [ok |-> FALSE, at |-> p]

RECURSIVE PExpr(_, _), PBin(_, _, _), PBinRest(_, _, _, _), PContains(_, _), PUnary(_, _), PIndex(_, _),
          PIndexRest(_, _, _), PTerm(_, _), PItems(_, _, _), PMapItems(_, _, _)

\* IfExpr
PExpr(toks, p) ==
  IF Cls(toks, p) = "if" THEN
     LET c == PExpr(toks, p + 1) IN
     IF ~c.ok THEN c
     ELSE IF Cls(toks, c.p) # "then" THEN PFail(c.p)
     ELSE LET t == PExpr(toks, c.p + 1) IN
          IF ~t.ok THEN t
          ELSE IF Cls(toks, t.p) # "else" THEN PFail(t.p)
          ELSE LET e == PExpr(toks, t.p + 1) IN
               IF ~e.ok THEN e ELSE POk(If(c.t, t.t, e.t), e.p)
  ELSE PBin(toks, p, 1)

\* binary level `lvl`: left-associative chain of operators of that level over level lvl+1
PBin(toks, p, lvl) ==
  IF lvl > MaxBinLevel THEN PContains(toks, p)
  ELSE LET l == PBin(toks, p, lvl + 1) IN IF ~l.ok THEN l ELSE PBinRest(toks, l.p, lvl, l.t)
PBinRest(toks, p, lvl, left) ==
  IF BinLevel(Cls(toks, p)) = lvl THEN
     LET r == PBin(toks, p + 1, lvl + 1) IN
     IF ~r.ok THEN r ELSE PBinRest(toks, r.p, lvl, Bin(BinNode(Cls(toks, p)), left, r.t))
  ELSE POk(left, p)

\* contains / in: operands at access level, at most one per pair; otherwise a unary expression
PContains(toks, p) ==
  IF Cls(toks, p) \in {"-", "!"} THEN PUnary(toks, p)
  ELSE LET l == PIndex(toks, p) IN
       IF ~l.ok THEN l
       ELSE IF Cls(toks, l.p) \in {"contains", "in"} THEN
            LET r == PIndex(toks, l.p + 1) IN
            IF ~r.ok THEN r
            ELSE IF Cls(toks, l.p) = "contains" THEN POk(Bin("contains", l.t, r.t), r.p)
            ELSE POk(Bin("contains", r.t, l.t), r.p)
       ELSE l
PUnary(toks, p) ==
  IF Cls(toks, p) = "-" THEN LET e == PUnary(toks, p + 1) IN IF ~e.ok THEN e ELSE POk(Un("neg", e.t), e.p)
  ELSE IF Cls(toks, p) = "!" THEN LET e == PUnary(toks, p + 1) IN IF ~e.ok THEN e ELSE POk(Un("not", e.t), e.p)
  ELSE PIndex(toks, p)

PIndex(toks, p) == LET t == PTerm(toks, p) IN IF ~t.ok THEN t ELSE PIndexRest(toks, t.p, t.t)
PIndexRest(toks, p, left) ==
  IF Cls(toks, p) = "." THEN
     (IF Cls(toks, p + 1) = "IDENT" THEN PIndexRest(toks, p + 2, Idx(left, FieldI(toks[p + 1].s)))
      ELSE IF Cls(toks, p + 1) = "INDEX" THEN
           LET d == DenoteIndex(toks[p + 1].s) IN
           IF ~d.ok THEN PFail(p + 1) ELSE PIndexRest(toks, p + 2, Idx(left, IndexOfMag(d.m)))
      ELSE PFail(p + 1))
  ELSE POk(left, p)

PTerm(toks, p) ==
  LET c == Cls(toks, p) IN
  IF c = "(" THEN
       LET e == PExpr(toks, p + 1) IN
       IF ~e.ok THEN e ELSE IF Cls(toks, e.p) = ")" THEN POk(e.t, e.p + 1) ELSE PFail(e.p)
  ELSE IF (IsFuncKw(c) \/ c = "IDENT") /\ Cls(toks, p + 1) = "(" THEN
       LET e == PExpr(toks, p + 2) IN
       IF ~e.ok THEN e
       ELSE IF Cls(toks, e.p) # ")" THEN PFail(e.p)
       ELSE IF c = "IDENT" THEN POk(Call(toks[p].s, e.t), e.p + 1) ELSE POk(Un(FuncNode(c), e.t), e.p + 1)
  ELSE IF c = "IDENT" THEN POk(Ref(toks[p].s), p + 1)
  ELSE IF c = ":" THEN (IF Cls(toks, p + 1) = "IDENT" THEN POk(Sym(toks[p + 1].s), p + 2) ELSE PFail(p + 1))
  ELSE IF c = "[" THEN PItems(toks, p + 1, <<>>)
  ELSE IF c = "{" THEN PMapItems(toks, p + 1, <<>>)
  ELSE IF IsLiteralClass(c) \/ c = "none" THEN
       LET d == Denote(toks[p]) IN IF d.ok THEN POk(Val(d.v), p + 1) ELSE PFail(p)
  ELSE IF IsFuncKw(c) THEN PFail(p + 1)          \* a function keyword must be followed by "("
  ELSE PFail(p)

\* after "[": items separated by commas, optional trailing comma, then "]"
PItems(toks, p, acc) ==
  IF Cls(toks, p) = "]" THEN POk(VecE(acc), p + 1)
  ELSE LET e == PExpr(toks, p) IN
       IF ~e.ok THEN e
       ELSE IF Cls(toks, e.p) = "," THEN PItems(toks, e.p + 1, Append(acc, e.t))
       ELSE IF Cls(toks, e.p) = "]" THEN POk(VecE(Append(acc, e.t)), e.p + 1)
       ELSE PFail(e.p)
\* after "{": key : expr items (keys are identifiers; a repeated key keeps the last value)
PMapItems(toks, p, acc) ==
  IF Cls(toks, p) = "}" THEN POk(MapE(acc), p + 1)
  ELSE IF Cls(toks, p) # "IDENT" THEN PFail(p)
  ELSE IF Cls(toks, p + 1) # ":" THEN PFail(p + 1)
  ELSE LET e == PExpr(toks, p + 2) IN
       IF ~e.ok THEN e
       ELSE LET acc2 == MapPut(acc, toks[p].s, e.t) IN
            IF Cls(toks, e.p) = "," THEN PMapItems(toks, e.p + 1, acc2)
            ELSE IF Cls(toks, e.p) = "}" THEN POk(MapE(acc2), e.p + 1)
            ELSE PFail(e.p)

\* a whole expression text
Parse(toks) == LET e == PExpr(toks, 1) IN
               IF ~e.ok THEN e ELSE IF e.p = Len(toks) + 1 THEN [ok |-> TRUE, t |-> e.t] ELSE PFail(e.p)

\* rule level: (@ IDENT : Expr ;)* Expr      -> [ok, meta |-> <<<<key, tree>>...>>, t]
RECURSIVE PRule(_, _, _)
PRule(toks, p, meta) ==
  IF Cls(toks, p) = "@" THEN
     (IF Cls(toks, p + 1) # "IDENT" THEN PFail(p + 1)
      ELSE IF Cls(toks, p + 2) # ":" THEN PFail(p + 2)
      ELSE LET e == PExpr(toks, p + 3) IN
           IF ~e.ok THEN e
           ELSE IF Cls(toks, e.p) # ";" THEN PFail(e.p)
           ELSE PRule(toks, e.p + 1, Append(meta, <<toks[p + 1].s, e.t>>)))
  ELSE LET e == PExpr(toks, p) IN
       IF ~e.ok THEN e
       ELSE IF e.p = Len(toks) + 1 THEN [ok |-> TRUE, meta |-> meta, t |-> e.t] ELSE PFail(e.p)
ParseRuleToks(toks) == PRule(toks, 1, <<>>)

ParseText(cs) == LET l == Lex(cs) IN IF ~l.ok THEN [ok |-> FALSE, at |-> 0] ELSE Parse(l.toks)
=============================================================================
