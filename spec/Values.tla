------------------------------- MODULE Values -------------------------------
(***************************************************************************)
(* The Value universe of reval: ten variants as tagged records.            *)
(*   None  [t |-> "None"]                                                  *)
(*   Bool  [t |-> "Bool", b]                                               *)
(*   Int   [t |-> "Int", n]            n a BigInt within i128              *)
(*   Float [t |-> "Float", f]          f a Float.tla triple                *)
(*   Dec   [t |-> "Dec", n, sc]        mantissa BigInt (96 bit), scale 0..28*)
(*   Str   [t |-> "Str", cs]           code points                         *)
(*   DT    [t |-> "DT", n]             nanoseconds since the epoch         *)
(*   Dur   [t |-> "Dur", n]            nanoseconds                         *)
(*   Vec   [t |-> "Vec", xs]           sequence of values                  *)
(*   Map   [t |-> "Map", kv]           sequence of <<key, value>>, strictly *)
(*                                     increasing keys                     *)
(***************************************************************************)
EXTENDS Float, Decimal, Time, Str

Types == <<"None", "Bool", "Int", "Float", "Dec", "Str", "DT", "Dur", "Vec", "Map">>

VNone == [t |-> "None"]
VBool(b) == [t |-> "Bool", b |-> b]
VInt(z) == [t |-> "Int", n |-> z]
VFloat(f) == [t |-> "Float", f |-> f]
VDec(z, sc) == [t |-> "Dec", n |-> z, sc |-> sc]
VStr(cs) == [t |-> "Str", cs |-> cs]
VDT(z) == [t |-> "DT", n |-> z]
VDur(z) == [t |-> "Dur", n |-> z]
VVec(xs) == [t |-> "Vec", xs |-> xs]
VMap(kv) == [t |-> "Map", kv |-> kv]

I(n) == VInt(ZFromInt(n))
Fl(s, n, e) == VFloat(FNorm(s, MFromNat(n), e))          \* s * n * 2^e
Dc(n, sc) == VDec(ZFromInt(n), sc)
St(str) == VStr(S(str))

I128Max == ZSub(ZPow2(127), ZOne)
I128Min == ZNeg(ZPow2(127))
IntInRange(z) == ZInRange(z, I128Min, I128Max)

\* map helpers ---------------------------------------------------------------
MapGet(kv, key) == IF \E i \in 1..Len(kv) : kv[i][1] = key
                   THEN (kv[CHOOSE i \in 1..Len(kv) : kv[i][1] = key])[2] ELSE VNone
MapHas(kv, key) == \E i \in 1..Len(kv) : kv[i][1] = key
MapSorted(kv) == \A i \in 1..(Len(kv) - 1) : StrLess(kv[i][1], kv[i + 1][1])
\* insert-or-replace keeping key order
RECURSIVE MapPut(_, _, _)
MapPut(kv, key, v) ==
  IF kv = <<>> THEN <<<<key, v>>>>
  ELSE IF kv[1][1] = key THEN <<<<key, v>>>> \o Tail(kv)
  ELSE IF StrLess(key, kv[1][1]) THEN <<<<key, v>>>> \o kv
  ELSE <<kv[1]>> \o MapPut(Tail(kv), key, v)

\* structural equality as the Value type defines it ------------------------------
RECURSIVE ValEq(_, _)
ValEq(a, b) ==
  IF a.t # b.t THEN FALSE
  ELSE CASE a.t = "None" -> TRUE
         [] a.t = "Bool" -> a.b = b.b
         [] a.t = "Int" -> a.n = b.n
         [] a.t = "Float" -> FEq(a.f, b.f)                 \* NaN # NaN, -0 = 0
         [] a.t = "Dec" -> DCmp(a.n, a.sc, b.n, b.sc) = 0   \* numeric: 1.0 = 1
         [] a.t = "Str" -> a.cs = b.cs
         [] a.t = "DT" -> a.n = b.n
         [] a.t = "Dur" -> a.n = b.n
         [] a.t = "Vec" -> Len(a.xs) = Len(b.xs) /\ \A i \in 1..Len(a.xs) : ValEq(a.xs[i], b.xs[i])
         [] a.t = "Map" -> Len(a.kv) = Len(b.kv) /\
                           \A i \in 1..Len(a.kv) : a.kv[i][1] = b.kv[i][1] /\ ValEq(a.kv[i][2], b.kv[i][2])

\* is the value inside the range of its type? (C01: no result may lie outside) ------
RECURSIVE InRange(_)
InRange(v) ==
  CASE v.t = "Int" -> IntInRange(v.n)
    [] v.t = "Dec" -> DFits(v.n.m) /\ v.sc >= 0 /\ v.sc <= DecMaxScale
    [] v.t = "Float" -> v.f.c # "fin" \/ v.f.m = <<>> \/ FExact(v.f.s, v.f.m, v.f.e)
    [] v.t = "DT" -> DTInRange(v.n)
    [] v.t = "Dur" -> DurInRange(v.n)
    [] v.t = "Vec" -> \A i \in 1..Len(v.xs) : InRange(v.xs[i])
    [] v.t = "Map" -> MapSorted(v.kv) /\ \A i \in 1..Len(v.kv) : InRange(v.kv[i][2])
    [] OTHER -> TRUE
=============================================================================
