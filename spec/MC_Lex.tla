-------------------------------- MODULE MC_Lex --------------------------------
(***************************************************************************)
(* C06b / C08: character-level universes.  One TLC state per text; the     *)
(* text is lexed and parsed by the specification (Lexer + Grammar +        *)
(* RuleText) and emitted with the prescribed result for replay.            *)
(*   Family = "chars"   every string up to length N over CharAlpha         *)
(*            "words"   every word up to length N over the keyword-prefix  *)
(*                      collision alphabet  i n t y f d e 1 5 x _          *)
(*            "ints" "floats" "decs" "strings"   literal families          *)
(*            "layout"  base token sequences x every separator assignment  *)
(*            "scale"   long and deep texts of size N                      *)
(***************************************************************************)
EXTENDS RuleText, TLC, Json

CONSTANTS Family, N
VARIABLE txt

CharAlpha == << 105, 102, 100, 48, 49, 56, 57, 120, 111, 98, 101, 46, 43, 45, 95, 34, 92, 47, 32, 10,
                233, 160, 7, 97, 40, 41, 58, 64, 59, 123 >>      \* i f d 0 1 8 9 x o b e . + - _ " \ / sp nl  e-acute nbsp bel a ( ) : @ ; {
WordAlpha == S("intyfde15x_")

\* ---- numerals -------------------------------------------------------------------------
RECURSIVE RadixDigitsR(_, _)
RadixDigitsR(m, r) == IF m = <<>> THEN <<>> ELSE LET x == MDivSmall(m, r) IN RadixDigitsR(x[1], r) \o <<x[2]>>
RadixDigits(m, r) == IF m = <<>> THEN <<0>> ELSE RadixDigitsR(m, r)
DigitChar(d, upper) == IF d < 10 THEN 48 + d ELSE IF upper THEN 55 + d ELSE 87 + d
Numeral(m, r, upper) == LET ds == RadixDigits(m, r) IN [i \in 1..Len(ds) |-> DigitChar(ds[i], upper)]

P2m(k) == MPow2(k)
IntMags == { <<>>, <<1>>, <<7>>, <<9>>, <<10>>, <<255>>, P2m(15), P2m(31), MSub(P2m(63), <<1>>), P2m(63), P2m(64),
             P2m(96), MSub(P2m(127), <<2>>), MSub(P2m(127), <<1>>), P2m(127), MAdd(P2m(127), <<1>>), P2m(128),
             MPow10(19), MPow10(38), MPow10(39), MPow10(45), MPow10(79) }
IntTexts ==
  { S("i") \o sg \o z \o Numeral(m, 10, FALSE) : sg \in {<<>>, S("+"), S("-")}, z \in {<<>>, S("00")}, m \in IntMags }
  \cup { S("0x") \o z \o Numeral(m, 16, up) : z \in {<<>>, S("0")}, up \in BOOLEAN, m \in IntMags }
  \cup { S("0o") \o z \o Numeral(m, 8, FALSE) : z \in {<<>>, S("0")}, m \in IntMags }
  \cup { S("0b") \o z \o Numeral(m, 2, FALSE) : z \in {<<>>, S("0")}, m \in IntMags }
  \cup { S("0o8"), S("0o18"), S("0o78"), S("0b2"), S("0xg"), S("0x"), S("i"), S("i+"), S("i-"), S("i--1"), S("i1_000"),
         S("0X1F"), S("0O7"), S("0B1"), S("a.0"), S("a.00"), S("a.18446744073709551615"), S("a.18446744073709551616"),
         S("a.99999999999999999999999"), S("a.0x1"), S("a.1.2"), S("a.i1"), S("a.1e5") }

FloatMant == { S("0"), S("1"), S("5"), S("9"), S("15"), S("105"), S("123"), S("1.5"), S(".5"), S("0.1"), S("00.10"),
               S("1.05"), S("12.3"), S(".123"), S("9.99"), S("0.0") }
FloatExp == { <<>>, S("e0"), S("e1"), S("e5"), S("E5"), S("e+5"), S("e-1"), S("e-5"), S("e05"), S("e308"), S("e309"),
              S("e-308"), S("e-323"), S("e-324"), S("e-325"), S("e999"), S("e-999"), S("e99999999999") }
FloatTexts ==
  { S("f") \o sg \o m \o e : sg \in {<<>>, S("+"), S("-")}, m \in FloatMant, e \in FloatExp }
  \cup { S("f0.3"), S("f2.2250738585072014e-308"), S("f1.7976931348623157e308"), S("f1.7976931348623158e308"),
         S("f1.7976931348623159e308"), S("f4.9e-324"), S("f2.4703282292062327e-324"), S("f2.4703282292062328e-324"),
         S("f2.5e-324"), S("f9007199254740993"), S("f9007199254740995"), S("f9007199254740992"), S("f0.30000000000000004"),
         S("f123456789012345678901234567890"), S("f0.000000000000000000000000000001"), S("f1e"), S("f1e+"), S("f."), S("f"),
         S("f1."), S("f1.e5"), S("f-"), S("f1.5.5"), S("f1e5e5"), S("f1_0"), S("finf"), S("fNaN"),
         S("f179769313486231570814527423731704356798070567525844996598917476803157260780028538760589558632766878171540458953514382464234321326889464182768467546703537516986049910576551282076245490090389328944075868508455133942304583236903222948165808559332123348274797826204144723168738177180919299881250404026184124858368") }

DecMant == { S("0"), S("1"), S("5"), S("15"), S("1.5"), S("1.50"), S(".5"), S("0.1"), S("00.10"), S("2.50"), S("0.0"), S("0.00"),
             S("79228162514264337593543950335"), S("79228162514264337593543950336"), S("7922816251426433759354395033.5"),
             S("7.9228162514264337593543950335"), S("0.7922816251426433759354395033"), S("0.79228162514264337593543950335"),
             S("0.0000000000000000000000000001"), S("0.00000000000000000000000000015"), S("0.00000000000000000000000000025"),
             S("0.00000000000000000000000000005"), S("1.0000000000000000000000000000"), S("1.00000000000000000000000000000"),
             S("79228162514264337593543950335.0"), S("100000000000000000000000000000"), S("0.1234567890123456789012345678901234567890") }
\* integer digits x fractional digits around the reader's thresholds (the 64-bit and 96-bit registers, 28 fractional
\* digits, the digit that decides rounding)
RECURSIVE RepL(_, _)
RepL(t, n) == IF n = 0 THEN <<>> ELSE t \o RepL(t, n - 1)
DecInts == { <<>>, S("0"), S("7"), S("18446744073709551"), S("1844674407370955160"), S("18446744073709551615"), S("1076305743455"), S("16130996763"),
             S("7922816251426433759354395033"), S("79228162514264337593543950335"), RepL(S("0"), 30) \o S("7") }
DecFracs == { S("5"), S("50"), RepL(S("0"), 27) \o S("1"), RepL(S("0"), 27) \o S("15"), RepL(S("0"), 27) \o S("14"), RepL(S("0"), 27) \o S("149"), RepL(S("0"), 27) \o S("05"),
              RepL(S("9"), 28) \o S("5"), RepL(S("9"), 29), RepL(S("3"), 40), S("61533719722259500"), S("5266692297962427900"), S("9100227436871980000000000000000000000000"),
              S("12345678901234567890123456785"), S("5") \o RepL(S("0"), 30) }
DecTexts == { S("d") \o sg \o m : sg \in {<<>>, S("+"), S("-")}, m \in DecMant }
            \cup { S("d") \o sg \o i \o S(".") \o f : sg \in {<<>>, S("-")}, i \in DecInts, f \in DecFracs }
            \cup { S("d"), S("d."), S("d1."), S("d1e5"), S("d1.5e3"), S("d-"), S("d1.2.3"), S("d1_0"), S("dec"), S("d1x") }

StrPool == { 97, 65, 48, 32, 9, 10, 13, 34, 39, 92, 47, 110, 114, 116, 117, 120, 123, 125, 233, 223, 160, 8203, 12288, 20013,
             128512, 0, 7, 127, 64, 59 }
Q == <<34>>
StrTexts ==
  { Q \o <<c>> \o Q : c \in StrPool } \cup { Q \o <<92, c>> \o Q : c \in StrPool }
  \cup { Q \o <<97, 92, c, 98>> \o Q : c \in StrPool } \cup { Q \o <<c, c>> \o Q : c \in StrPool }
  \cup { Q \o S("\\u{") \o h \o S("}") \o Q : h \in { <<>>, S("41"), S("e9"), S("E9"), S("0041"), S("00000041"), S("1F600"), S("10FFFF"),
                                                      S("110000"), S("D7FF"), S("D800"), S("DFFF"), S("E000"), S("FFFFFFFF"), S("100000000"),
                                                      S("g"), S("+41"), S("-41"), S(" 41"), S("4 1"), S("0x41"), S("0") } }
  \cup { Q \o <<233, 92, 110>> \o Q, Q \o <<20013, 92, 116, 233, 92, 92>> \o Q, Q \o <<128512, 92, 34, 97>> \o Q, Q \o <<233, 233, 92, 117, 123, 52, 49, 125>> \o Q,
          Q \o <<97, 233, 92, 39>> \o Q }
  \cup { S("[") \o Q \o S("C:") \o <<92, 92>> \o Q \o S(", ") \o Q \o S("f.txt") \o Q \o S("]"),
          Q \o <<92, 92>> \o Q \o S(" == ") \o Q \o S("b") \o Q, Q \o S("a") \o <<92>> \o Q \o S(" + ") \o Q \o S("b") \o Q,
          S("{k: ") \o Q \o <<92, 92>> \o Q \o S(", j: ") \o Q \o <<92, 34>> \o Q \o S("}") }
  \cup { S("// n") \o <<10>> \o Q \o <<c>> \o Q : c \in {13, 10, 97, 233} } \cup { S("// n") \o <<13, 10>> \o Q \o S("a") \o <<13, 10>> \o S("b") \o <<13>> \o Q }
  \cup { Q \o S("\\u{41") \o Q, Q \o S("\\u41") \o Q, Q \o S("\\u") \o Q, Q \o S("\\u{41}}") \o Q, Q \o S("a\\u{41}b\\u{42}") \o Q,
         Q \o S("\\u{41") , Q \o S("abc"), Q, Q \o S("a") \o <<92>> \o Q, Q \o <<92, 92>> \o Q, Q \o <<92, 92, 92>> \o Q,
         Q \o S("a//b") \o Q, Q \o S("a") \o <<10>> \o S("//b") \o Q, Q \o Q, Q \o Q \o Q, Q \o S("a") \o Q \o S("b") \o Q }

\* ---- scale: long and deep texts (N = size) ------------------------------------------------
RECURSIVE Rep(_, _)
Rep(t, n) == IF n = 0 THEN <<>> ELSE t \o Rep(t, n - 1)
RECURSIVE Dec10(_)
Dec10(n) == IF n < 10 THEN <<48 + n>> ELSE Dec10(n \div 10) \o <<48 + (n % 10)>>
RECURSIVE Enum(_, _, _, _)          \* pre(i) ... joined by sep
Enum(F(_), sep, i, n) == IF i > n THEN <<>> ELSE F(i) \o (IF i < n THEN sep ELSE <<>>) \o Enum(F, sep, i + 1, n)
Deep == IF N > 60 THEN 60 ELSE N
ScaleTexts ==
  LET ia(i) == S("i") \o Dec10(i)
      pa(i) == S("(a") \o Dec10(i) \o S(")")
      kv(i) == S("k") \o Dec10(i) \o S(": i") \o Dec10(i)
      E0 == Rep(<<233>>, N)                         \* two-byte characters: every odd byte offset is inside a character
      E1 == <<97>> \o Rep(<<233>>, N)               \* ... and every even one
  IN { Enum(pa, S(" + "), 1, N),                                   \* N parenthesised atoms
       Rep(S("("), Deep) \o S("a") \o Rep(S(")"), Deep),            \* nested parentheses
       Enum(ia, S(" and "), 1, N), Enum(ia, S(" or "), 1, N), Enum(ia, S(" - "), 1, N), Enum(ia, S(" == "), 1, N \div 4 + 2),
       Rep(S("f("), Deep) \o S("a") \o Rep(S(")"), Deep),           \* nested calls
       Rep(S("!"), Deep) \o S("a"), Rep(S("-"), Deep) \o S("a"),
       S("a") \o Rep(S(".b"), N), S("a") \o Rep(S(".1"), N),        \* long paths
       S("[") \o Enum(ia, S(", "), 1, N) \o S("]"), S("{") \o Enum(kv, S(", "), 1, N) \o S("}"),
       Rep(S("if a then b else "), Deep) \o S("c"),                 \* an else-if ladder
       Rep(S("x"), N), S("i1") \o Rep(S("0"), N), S("d1.") \o Rep(S("0"), N) \o S("5"), S("f0.") \o Rep(S("0"), N) \o S("5"),
       Q \o E0 \o Q, Q \o E1 \o Q, Q \o E0 \o Q \o S(" +"), Q \o E1 \o Q \o S(" +"), Q \o E1, E0, S("a + ") \o E1,
       S("// ") \o E0 \o <<10>> \o S("// ") \o E1 \o <<10>> \o S("a"),    \* a long rule name and description
       Rep(<<10>>, N) \o S("a"), Rep(S("//c") \o <<10>>, N) \o S("a"), S("a") \o Rep(<<32>>, N) \o S("+") \o Rep(<<9>>, N) \o S("b") }

\* ---- layout -----------------------------------------------------------------------------
Seps == << <<32>>, <<9, 10>>, <<13, 10>>, <<160>>, S("//c") \o <<10>>, <<>>, S("//c") \o <<13>>, <<11, 12, 133, 8232, 5760, 8287>>,
           S("  ") \o <<10>> \o S("// x y") \o <<13, 10, 32>>, <<12288>>, <<13>>, <<9>> >>
NSeps == IF N >= 1 /\ N <= Len(Seps) THEN N ELSE 8        \* Family = "layout": N = number of separators used
LayoutBases == << <<S("a"), S("+"), S("i1"), S("*"), S("b")>>,
                  <<S("if"), S("a"), S("then"), S("b"), S("else"), S("c")>>,
                  <<S("f"), S("("), S("i1"), S(")")>>,
                  <<S("["), S("i1"), S(","), S("i2"), S("]")>>,
                  <<S("{"), S("k"), S(":"), S("\"s t\""), S("}")>>,
                  <<S("a"), S("."), S("0"), S("contains"), S("b")>>,
                  <<S("!"), S("a"), S(">="), S("f2")>>,
                  <<S("int"), S("("), S("d1.5"), S(")")>>,
                  <<S("-"), S("a"), S("."), S("k"), S("in"), S(":s")>> >>
\* separator assignments: txt is built left to right; state = [base, k tokens placed, text]
VARIABLE lay
vars == <<txt, lay>>

\* The literal families are finite sets of texts.  To let TLC's workers share them, Init only picks a
\* bucket and Next picks a text of that bucket (one state's successors are computed by one worker).
NB == 24
Bucket(t) == (Len(t) * 7 + (IF t = <<>> THEN 0 ELSE t[Len(t)] + t[(Len(t) + 1) \div 2])) % NB
FamilyTexts == CASE Family = "ints" -> IntTexts [] Family = "floats" -> FloatTexts
                 [] Family = "decs" -> DecTexts [] Family = "strings" -> StrTexts [] Family = "scale" -> ScaleTexts [] OTHER -> {}
Lay0 == [b |-> 0, k |-> 0, nosep |-> FALSE]
Init == IF Family = "chars" \/ Family = "words" THEN txt = <<>> /\ lay = Lay0
        ELSE IF Family = "layout" THEN \E b \in 1..Len(LayoutBases) : lay = [b |-> b, k |-> 1, nosep |-> FALSE] /\ txt = LayoutBases[b][1]
        ELSE txt = <<>> /\ \E b \in 0..(NB - 1) : lay = [b |-> b, k |-> -1, nosep |-> FALSE]

Next == IF Family = "chars" THEN Len(txt) < N /\ lay' = lay /\ \E i \in 1..Len(CharAlpha) : txt' = Append(txt, CharAlpha[i])
        ELSE IF Family = "words" THEN Len(txt) < N /\ lay' = lay /\ \E i \in 1..Len(WordAlpha) : txt' = Append(txt, WordAlpha[i])
        ELSE IF Family = "layout" THEN
             /\ lay.k < Len(LayoutBases[lay.b])
             /\ \E s \in 1..NSeps : /\ txt' = txt \o Seps[s] \o LayoutBases[lay.b][lay.k + 1]
                                        /\ lay' = [lay EXCEPT !.k = @ + 1, !.nosep = @ \/ Seps[s] = <<>>]
        ELSE /\ lay.k = -1
             /\ \E t \in {u \in FamilyTexts : Bucket(u) = lay.b} : txt' = t /\ lay' = Lay0

\* value AND scale are compared unless the literal has more digits than the type holds (then: within one unit of the last place)
DecAp(lexeme) == IF DecFromStr(Tail(lexeme)).exact THEN "scale" ELSE "dec1ulp"

Complete == Family # "layout" \/ lay.k = Len(LayoutBases[lay.b])
Result == LET l == Lex(txt) IN
          IF ~l.ok THEN [x |-> [ok |-> FALSE], rule |-> ParseError]
          ELSE LET r == Parse(l.toks) IN
               [x |-> IF r.ok THEN (IF r.t.k = "val" /\ Len(l.toks) = 1 /\ l.toks[1].c = "DECIMAL"
                                    THEN [ok |-> TRUE, t |-> r.t @@ [ap |-> DecAp(l.toks[1].s)]] ELSE [ok |-> TRUE, t |-> r.t])
                      ELSE [ok |-> FALSE],
                rule |-> RuleFromToks(l.toks, txt)]
Emit == (Complete /\ txt # <<>>) => LET r == Result IN PrintT("CASE " \o ToJson([text |-> txt, x |-> r.x, rule |-> r.rule, key |-> Family]))

\* layout never changes the tokens: the text with arbitrary separators lexes to the base tokens
\* (where two adjacent tokens fuse without a separator the base sequence is not claimed)
RECURSIVE JoinSp(_, _)
JoinSp(ts, i) == IF i > Len(ts) THEN <<>> ELSE (IF i = 1 THEN <<>> ELSE <<32>>) \o ts[i] \o JoinSp(ts, i + 1)
LayoutInsensitive ==
  (Family = "layout" /\ Complete) =>
     LET l == Lex(txt) base == Lex(JoinSp(LayoutBases[lay.b], 1)) IN
     lay.nosep \/ (l.ok /\ l.toks = base.toks)
=============================================================================
