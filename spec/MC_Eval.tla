------------------------------- MODULE MC_Eval -------------------------------
(***************************************************************************)
(* C05: laziness, order, exactly-once, first-error-wins.                   *)
(* Universe: all trees with at most L probe leaves (at most three; the    *)
(* four-leaf trees only over and, or, eq, neq, add, if) over the lazy kinds *)
(* {if, and, or, eq, neq} and one representative of each strict shape      *)
(* {binary operator, comparison, membership, list, map, call argument,     *)
(* unary operator, index}.  A probe is a call p_i(i_i) of a non-cacheable, *)
(* logging user function whose single scripted result is, for EVERY        *)
(* assignment, one of true / false / None / an Int / a failure.            *)
(* The machine of Eval.tla is run step by step; at completion its outcome  *)
(* and its invocation log must equal those of the denotation Den.          *)
(***************************************************************************)
EXTENDS Eval, TLC, Json, SequencesExt

CONSTANTS L,          \* maximal number of probe leaves
          Wrap        \* TRUE: also wrap sub-trees in unary / call / index nodes

VARIABLES prog,       \* the tree, leaves are holes [k |-> "hole"] until numbered
          res,        \* sequence of scripted probe results chosen so far
          ms, gs      \* machine state and global (counts, calls); ms = "idle" record before the run
vars == <<prog, res, ms, gs>>

Hole == [k |-> "hole"]
BinK == {"and", "or", "eq", "neq", "add", "gt", "contains"}

\* trees with exactly n holes
RECURSIVE T(_)
T(n) ==
  IF n = 1 THEN {Hole}
  ELSE UNION {
         {Bin(k, l, r) : k \in BinK, l \in T(i), r \in T(n - i)}
         \cup {VecE(<<l, r>>) : l \in T(i), r \in T(n - i)}
         \cup {MapE(<< <<S("a"), l>>, <<S("b"), r>> >>) : l \in T(i), r \in T(n - i)}
         \cup {Idx(VecE(<<l, r>>), PosI(p)) : l \in T(i), r \in T(n - i), p \in {0, 1, 2}}
         \cup {Idx(MapE(<< <<S("a"), l>>, <<S("b"), r>> >>), FieldI(S(f))) : l \in T(i), r \in T(n - i), f \in {"a", "b", "zz"}}
       : i \in 1..(n - 1) }
       \cup (IF n >= 3 THEN UNION { {If(c, t, f) : c \in T(i), t \in T(j), f \in T(n - i - j)}
                                     : <<i, j>> \in {p \in (1..(n-2)) \X (1..(n-2)) : p[1] + p[2] <= n - 1} }
             ELSE {})
\* trees with exactly n holes over the lazy kinds, `add` and `if` only (used for n = 4: the full T(4) has 17 000 shapes x 625
\* assignments)
LazyPlus == {"and", "or", "eq", "neq", "add"}
RECURSIVE TR(_)
TR(n) ==
  IF n = 1 THEN {Hole}
  ELSE UNION { {Bin(k, l, r) : k \in LazyPlus, l \in TR(i), r \in TR(n - i)} : i \in 1..(n - 1) }
       \cup (IF n >= 3 THEN UNION { {If(c, t, f) : c \in TR(i), t \in TR(j), f \in TR(n - i - j)}
                                     : <<i, j>> \in {p \in (1..(n-2)) \X (1..(n-2)) : p[1] + p[2] <= n - 1} }
             ELSE {})
Wrapped(t) == {Un("not", t), Un("some", t), Call(S("q"), t), Call(S("nofn"), t), Idx(VecE(<<t>>), PosI(0)), Idx(t, FieldI(S("a")))}
\* chains longer than L: same-operator and alternating runs of four lazy operators, nested on the left spine (what the
\* parser builds for `a and b and c and d`) and on the right; an else-if ladder with three conditions
LazyK == {"and", "or"}
Chains == {Bin(k1, Bin(k2, Bin(k1, Hole, Hole), Hole), Hole) : k1 \in LazyK, k2 \in LazyK}
          \cup {Bin(k1, Hole, Bin(k2, Hole, Bin(k1, Hole, Hole))) : k1 \in LazyK, k2 \in LazyK}
          \cup {If(Hole, Val(I(1)), If(Hole, Val(I(2)), If(Hole, Val(I(3)), Val(I(4)))))}
          \* a lazy operator whose left operand is a special value: only None decides `==` / `!=` alone, only a Bool `and` / `or`
          \cup {Bin(k, Val(v), Hole) : k \in {"eq", "neq", "and", "or"}, v \in {VFloat(FNaN), VFloat(FZero(-1)), VNone, VStr(<<>>), I(0)}}
          \* structurally IDENTICAL sub-expressions: both branches of an `if` (the condition is still evaluated), both operands
          \* of an operator (a non-cacheable function is still invoked once per occurrence)
          \cup {If(Hole, Val(I(1)), Val(I(1))), If(Hole, Call(S("q"), Val(I(1))), Call(S("q"), Val(I(1)))), If(Hole, Val(VBool(TRUE)), Val(VBool(FALSE))),
                If(Hole, Val(VBool(FALSE)), Val(VBool(TRUE)))}
          \cup {Bin(k, Call(S("q"), Val(I(1))), Call(S("q"), Val(I(1)))) : k \in {"eq", "neq", "add", "sub", "contains", "gt"}}
          \cup {Bin(k, Call(S("q"), Val(VBool(TRUE))), Call(S("q"), Val(VBool(TRUE)))) : k \in {"and", "or"}}
Shapes == LET base == UNION {T(n) : n \in 1..(IF L > 3 THEN 3 ELSE L)} \cup (IF L > 3 THEN UNION {TR(n) : n \in 4..L} ELSE {}) IN
          IF Wrap THEN base \cup Chains \cup UNION {Wrapped(t) : t \in UNION {T(n) : n \in 1..(IF L > 2 THEN 2 ELSE L)}}
                       \cup {Bin("and", w, Hole) : w \in Wrapped(Hole)} \cup {Bin("eq", Hole, w) : w \in Wrapped(Hole)}
          ELSE base

\* number the holes left to right: returns <<tree, next index>>
RECURSIVE Number(_, _)
RECURSIVE NumberSeq(_, _, _)
NumberSeq(es, i, n) == IF i > Len(es) THEN <<<<>>, n>>
                       ELSE LET h == Number(es[i], n) t == NumberSeq(es, i + 1, h[2]) IN <<<<h[1]>> \o t[1], t[2]>>
PName(i) == <<112, 48 + i>>                      \* "p1", "p2", ...
Number(e, n) ==
  CASE e.k = "hole" -> <<Call(PName(n), Val(I(n))), n + 1>>
    [] e.k = "map" -> LET r == NumberSeq([i \in 1..Len(e.kv) |-> e.kv[i][2]], 1, n) IN
                      <<[e EXCEPT !.kv = [i \in 1..Len(e.kv) |-> <<e.kv[i][1], r[1][i]>>]], r[2]>>
    [] e.k \in {"val", "ref", "sym"} -> <<e, n>>
    [] OTHER -> LET r == NumberSeq(e.a, 1, n) IN <<[e EXCEPT !.a = r[1]], r[2]>>

RECURSIVE Holes(_)
Holes(e) == CASE e.k = "hole" -> 1
              [] e.k = "map" -> FoldLeft(LAMBDA a, x : a + Holes(x[2]), 0, e.kv)
              [] e.k \in {"val", "ref", "sym"} -> 0
              [] OTHER -> FoldLeft(LAMBDA a, x : a + Holes(x), 0, e.a)

ProbeResults == { [r |-> "v", v |-> VBool(TRUE)], [r |-> "v", v |-> VBool(FALSE)], [r |-> "v", v |-> VNone],
                  [r |-> "v", v |-> I(7)], [r |-> "fail", msg |-> S("boom")] }

Env == [input |-> VMap(<< <<S("a"), I(1)>> >>), syms |-> <<>>, ev |-> 1,
        funcs |-> [i \in 1..Len(res) |-> [name |-> PName(i), cacheable |-> FALSE, suspend |-> 0, script |-> <<res[i]>>]]
                  \o << [name |-> S("q"), cacheable |-> FALSE, suspend |-> 0, script |-> <<[r |-> "echo"]>>] >>]

Idle == [mode |-> [m |-> "idle"], stack |-> <<>>, cache |-> <<>>]
Init == /\ prog \in {Number(s, 1)[1] : s \in Shapes}
        /\ res = <<>> /\ ms = Idle /\ gs = [counts |-> <<>>, calls |-> <<>>]
NProbes == Holes(prog)       \* 0 once numbered; use the count of p-calls instead
RECURSIVE Probes(_)
Probes(e) == CASE e.k = "call" -> (IF e.n[1] = 112 THEN 1 ELSE 0) + Probes(e.a[1])
               [] e.k = "map" -> FoldLeft(LAMBDA a, x : a + Probes(x[2]), 0, e.kv)
               [] e.k \in {"val", "ref", "sym"} -> 0
               [] OTHER -> FoldLeft(LAMBDA a, x : a + Probes(x), 0, e.a)

Assign == /\ ms.mode.m = "idle" /\ Len(res) < Probes(prog)
          /\ \E r \in ProbeResults : res' = Append(res, r)
          /\ UNCHANGED <<prog, ms, gs>>
StartRun == /\ ms.mode.m = "idle" /\ Len(res) = Probes(prog)
            /\ ms' = StartMs(prog, <<>>) /\ gs' = [counts |-> [i \in 1..Len(Env.funcs) |-> 0], calls |-> <<>>]
            /\ UNCHANGED <<prog, res>>
MStep(kind) == /\ ms.mode.m # "idle" /\ ~IsDone(ms) /\ StepKind(ms, Env) = kind
               /\ LET r == Step(ms, gs, Env) IN ms' = r.ms /\ gs' = r.gs
               /\ UNCHANGED <<prog, res>>
Literal == MStep("Literal")
Lookup == MStep("Lookup")
EmptyContainer == MStep("EmptyContainer")
Enter == MStep("Enter")
Propagate == MStep("Propagate")
ChooseBranch == MStep("ChooseBranch")
ReturnBranch == MStep("ReturnBranch")
EvalRight == MStep("EvalRight")
ShortCircuit == MStep("ShortCircuit")
ReturnLazy == MStep("ReturnLazy")
CallUnknown == MStep("CallUnknown")
CacheHit == MStep("CacheHit")
Invoke == MStep("Invoke")
Finish == MStep("Finish")
Suspend == MStep("Suspend")
NextItem == MStep("NextItem")
Return == MStep("Return")
Next == Assign \/ StartRun \/ Literal \/ Lookup \/ EmptyContainer \/ Enter \/ Propagate \/ ChooseBranch
        \/ ReturnBranch \/ EvalRight \/ ShortCircuit \/ ReturnLazy \/ CallUnknown \/ CacheHit \/ Invoke
        \/ Finish \/ Suspend \/ NextItem \/ Return
SpecSafe == Init /\ [][Next]_vars
Spec == Init /\ [][Next]_vars /\ WF_vars(Next)

Done == ms.mode.m = "ret" /\ ms.stack = <<>>

\* the machine's outcome and log equal the denotation's
MachineRefinesDen ==
  Done => LET d == Den(prog, Env, EmptySt(Env)) IN ms.mode.o = d.o /\ gs.calls = d.st.calls /\ gs.counts = d.st.counts
\* at every step the log so far is a prefix of the denotation's log: nothing unreached is ever invoked
LogWithinDen ==
  (ms.mode.m # "idle") => IsPrefix(gs.calls, Den(prog, Env, EmptySt(Env)).st.calls)
\* exactly-once: no probe is invoked twice
\* (probes only: the shapes with structurally identical operands call the non-cacheable q once per occurrence on purpose)
AtMostOnceEach == \A i, j \in 1..Len(gs.calls) : (i # j /\ gs.calls[i].f[1] = 112) => gs.calls[i].f # gs.calls[j].f
LogAppendOnly == [][ms.mode.m # "idle" => IsPrefix(gs.calls, gs'.calls)]_vars
Termination == <>Done

Emit == Done => PrintT("CASE " \o ToJson([prog |-> prog, env |-> Env, x |-> ms.mode.o, calls |-> gs.calls]))
=============================================================================
