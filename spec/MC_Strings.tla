------------------------------ MODULE MC_Strings ------------------------------
(***************************************************************************)
(* C01 / C02: strings of every length 0..MaxLen with a multi-byte          *)
(* character (2, 3 and 4 UTF-8 bytes) at every offset, through every       *)
(* string-consuming site: user-function arguments (bare, inside a list,    *)
(* inside a map), case mapping, trimming, membership, equality, map keys,  *)
(* index steps, failed casts that carry the string in their error.         *)
(* Byte-offset assumptions (slicing, truncation) have no other witness.    *)
(***************************************************************************)
EXTENDS Eval, TLC, Json

CONSTANT MaxLen
VARIABLE c      \* [k, ch, site]

Rep(x, n) == [i \in 1..n |-> x]
Str(k, ch) == Rep(97, k) \o <<ch>> \o <<98, 99>>
Sites == {"call", "callvec", "callmap", "upper", "lower", "trim", "contains1", "contains2", "eq", "mapkey", "int", "float", "some", "if"}
Init == c \in {[k |-> k, ch |-> ch, site |-> s] : k \in 0..MaxLen, ch \in {233, 20013, 128512}, s \in {"seed"}}
Next == c.site = "seed" /\ \E s \in Sites : c' = [c EXCEPT !.site = s]

V == Val(VStr(Str(c.k, c.ch)))
Prog ==
  CASE c.site = "call" -> Call(S("f"), V)
    [] c.site = "callvec" -> Call(S("f"), VecE(<<Val(I(1)), V>>))
    [] c.site = "callmap" -> Call(S("g"), MapE(<< <<S("key"), V>> >>))
    [] c.site = "upper" -> Un("uppercase", V)
    [] c.site = "lower" -> Un("lowercase", V)
    [] c.site = "trim" -> Un("trim", Val(VStr(<<32, 160>> \o Str(c.k, c.ch) \o <<12288, 9>>)))
    [] c.site = "contains1" -> Bin("contains", V, Val(VStr(<<c.ch>>)))
    [] c.site = "contains2" -> Bin("contains", V, Val(VStr(<<c.ch, 98, 99, 100>>)))
    [] c.site = "eq" -> Bin("eq", V, Call(S("f"), V))
    [] c.site = "mapkey" -> Bin("contains", Val(VMap(<< <<Str(c.k, c.ch), I(1)>> >>)), V)
    [] c.site = "int" -> Un("int", V)
    [] c.site = "float" -> Un("float", V)
    [] c.site = "some" -> Un("some", Call(S("f"), V))
    [] c.site = "if" -> If(Bin("eq", V, V), Call(S("g"), V), Val(VNone))
Env == [input |-> VNone, syms |-> <<>>, ev |-> 1,
        funcs |-> << [name |-> S("f"), cacheable |-> TRUE, suspend |-> 0, script |-> <<[r |-> "echo"]>>],
                     [name |-> S("g"), cacheable |-> FALSE, suspend |-> 0, script |-> <<[r |-> "fail", msg |-> Str(c.k, c.ch)]>>] >>]
Emit == c.site # "seed" =>
        LET d == Den(Prog, Env, EmptySt(Env)) IN
        PrintT("CASE " \o ToJson([prog |-> Prog, env |-> Env, x |-> d.o, calls |-> d.st.calls]))
=============================================================================
