-------------------------------- MODULE Lexer --------------------------------
(***************************************************************************)
(* The lexical level of the rule language: text (code points) -> tokens.   *)
(* Token classes are transcribed from the token definitions of the grammar *)
(* (DESIGN appendix B); the rule is longest match, ties resolved by        *)
(* priority: keyword / punctuation literal > literal-value patterns >      *)
(* identifier / index.  Unicode white space and // comments are skipped.   *)
(* A position where nothing matches is a lexical error.                    *)
(*                                                                         *)
(* A token is [c |-> class, s |-> lexeme].  Classes: the keyword or        *)
(* punctuation text itself as a TLA+ string ("and", "==", "(" ...), or     *)
(* "STRING" "INT" "HEX" "OCT" "BIN" "FLOAT" "DECIMAL" "IDENT" "INDEX".     *)
(* Denote(tok) gives the value of a literal token or fails (C06, C08).     *)
(***************************************************************************)
EXTENDS Values

Keywords == << "and", "or", "if", "then", "else", "is_some", "is_none", "none", "some", "int", "float", "dec",
               "contains", "in", "date_time", "datetime", "duration", "to_upper", "to_lower", "uppercase",
               "lowercase", "trim", "round", "floor", "fract", "year", "month", "week", "day", "hour", "minute",
               "second", "true", "false" >>
Puncts == << "==", "!=", ">=", "<=", "=", ">", "<", "+", "-", "*", "/", "%", "!", "&", "|", "^", "@",
             ",", ":", ";", ".", "(", ")", "[", "]", "{", "}" >>

IsHex(c) == IsDigit(c) \/ (c >= 97 /\ c <= 102) \/ (c >= 65 /\ c <= 70)
IsLetter(c) == (c >= 65 /\ c <= 90) \/ (c >= 97 /\ c <= 122)
IsIdentCont(c) == IsLetter(c) \/ IsDigit(c) \/ c = 95
At(cs, p) == IF p >= 1 /\ p <= Len(cs) THEN cs[p] ELSE -1

\* length of the maximal run of characters satisfying P starting at p
RECURSIVE Run(_, _, _)
Run(P(_), cs, p) == IF p <= Len(cs) /\ P(cs[p]) THEN 1 + Run(P, cs, p + 1) ELSE 0

StartsWith(cs, p, lit) == p + Len(lit) - 1 <= Len(cs) /\ SubSeq(cs, p, p + Len(lit) - 1) = lit

\* --- per-class match lengths at position p (0 = no match) -----------------------------
OptSign(cs, p) == IF At(cs, p) = 43 \/ At(cs, p) = 45 THEN 1 ELSE 0

\* [0-9]*\.?[0-9]+  : the longest match of this pattern starting at p
NumBody(cs, p) ==
  LET d1 == Run(IsDigit, cs, p)
      dot == IF At(cs, p + d1) = 46 THEN 1 ELSE 0
      d2 == IF dot = 1 THEN Run(IsDigit, cs, p + d1 + 1) ELSE 0
  IN IF dot = 1 /\ d2 > 0 THEN d1 + 1 + d2 ELSE d1      \* with a fraction if digits follow the dot, else the integer digits
\* i[+-]?[0-9]+
MInt(cs, p) == IF At(cs, p) # 105 THEN 0
               ELSE LET s == OptSign(cs, p + 1) d == Run(IsDigit, cs, p + 1 + s) IN IF d = 0 THEN 0 ELSE 1 + s + d
\* d[+-]?[0-9]*\.?[0-9]+
MDec(cs, p) == IF At(cs, p) # 100 THEN 0
               ELSE LET s == OptSign(cs, p + 1) b == NumBody(cs, p + 1 + s) IN IF b = 0 THEN 0 ELSE 1 + s + b
\* f[+-]?[0-9]*\.?[0-9]+([eE][-+]?[0-9]+)?
MFloat(cs, p) ==
  IF At(cs, p) # 102 THEN 0
  ELSE LET s == OptSign(cs, p + 1) b == NumBody(cs, p + 1 + s) IN
       IF b = 0 THEN 0
       ELSE LET q == p + 1 + s + b
                e == IF At(cs, q) = 101 \/ At(cs, q) = 69
                     THEN LET es == OptSign(cs, q + 1) ed == Run(IsDigit, cs, q + 1 + es) IN
                          IF ed = 0 THEN 0 ELSE 1 + es + ed
                     ELSE 0
            IN 1 + s + b + e
MRadix(cs, p, letter, P(_)) == IF At(cs, p) = 48 /\ At(cs, p + 1) = letter
                               THEN LET d == Run(P, cs, p + 2) IN IF d = 0 THEN 0 ELSE 2 + d ELSE 0
IsOct8(c) == c >= 48 /\ c <= 56          \* the class [0-8] as written in the grammar
IsBin(c) == c = 48 \/ c = 49
MIdent(cs, p) == IF IsLetter(At(cs, p)) THEN 1 + Run(IsIdentCont, cs, p + 1) ELSE 0
MIndex(cs, p) == Run(IsDigit, cs, p)
\* "[^"\\]*(\\.[^"\\]*)*"   where . excludes newline
RECURSIVE StrBody(_, _)
StrBody(cs, p) == \* position of the closing quote, or 0
  IF p > Len(cs) THEN 0
  ELSE IF cs[p] = 34 THEN p
  ELSE IF cs[p] = 92 THEN (IF p + 1 > Len(cs) \/ cs[p + 1] = 10 THEN 0 ELSE StrBody(cs, p + 2))
  ELSE StrBody(cs, p + 1)
MString(cs, p) == IF At(cs, p) # 34 THEN 0 ELSE LET q == StrBody(cs, p + 1) IN IF q = 0 THEN 0 ELSE q - p + 1

IsNL(c) == c = 10 \/ c = 13
NotNL(c) == ~IsNL(c)
MWhite(cs, p) == Run(IsWS, cs, p)
MComment(cs, p) == IF At(cs, p) = 47 /\ At(cs, p + 1) = 47
                   THEN LET a == Run(NotNL, cs, p + 2) IN 2 + a + Run(IsNL, cs, p + 2 + a) ELSE 0

\* longest literal (keyword or punctuation) at p: <<length, class>>
KwCps == [i \in 1..Len(Keywords) |-> S(Keywords[i])]          \* constant tables (evaluated once)
PunCps == [i \in 1..Len(Puncts) |-> S(Puncts[i])]
LitMatches(cs, p) == {i \in 1..Len(Keywords) : StartsWith(cs, p, KwCps[i])}
PunMatches(cs, p) == {i \in 1..Len(Puncts) : StartsWith(cs, p, PunCps[i])}
Longest(names, idx) == CHOOSE i \in idx : \A j \in idx : Len(names[j]) <= Len(names[i])
BestKeyword(cs, p) == LET k == LitMatches(cs, p) IN
                      IF k # {} THEN LET i == Longest(Keywords, k) IN <<Len(Keywords[i]), Keywords[i]>> ELSE <<0, "">>
BestPunct(cs, p) == LET u == PunMatches(cs, p) IN
                    IF u # {} THEN LET i == Longest(Puncts, u) IN <<Len(Puncts[i]), Puncts[i]>> ELSE <<0, "">>

\* the token (or skip, or error) at position p: [k |-> "tok"|"skip"|"err", n |-> length, c |-> class]
\* Longest match; on equal length: literal > value pattern > identifier/index.  The candidates are
\* dispatched on the first character (every pattern has a fixed set of possible first characters).
Max(a, b) == IF a >= b THEN a ELSE b
Tok(n, c) == [k |-> "tok", n |-> n, c |-> c]
TokenAt(cs, p) ==
  LET ch == cs[p] IN
  IF IsWS(ch) THEN [k |-> "skip", n |-> MWhite(cs, p), c |-> ""]
  ELSE IF IsLetter(ch) THEN
       LET kw == BestKeyword(cs, p)
           pat == CASE ch = 105 -> <<MInt(cs, p), "INT">> [] ch = 102 -> <<MFloat(cs, p), "FLOAT">>
                    [] ch = 100 -> <<MDec(cs, p), "DECIMAL">> [] OTHER -> <<0, "">>
           id == MIdent(cs, p)
           m == Max(Max(kw[1], pat[1]), id)
       IN IF kw[1] = m THEN Tok(m, kw[2]) ELSE IF pat[1] = m THEN Tok(m, pat[2]) ELSE Tok(m, "IDENT")
  ELSE IF IsDigit(ch) THEN
       LET r == IF ch = 48 THEN (CASE At(cs, p + 1) = 120 -> <<MRadix(cs, p, 120, IsHex), "HEX">>
                                   [] At(cs, p + 1) = 111 -> <<MRadix(cs, p, 111, IsOct8), "OCT">>
                                   [] At(cs, p + 1) = 98 -> <<MRadix(cs, p, 98, IsBin), "BIN">>
                                   [] OTHER -> <<0, "">>)
                ELSE <<0, "">>
           ix == MIndex(cs, p)
       IN IF r[1] >= ix THEN Tok(r[1], r[2]) ELSE Tok(ix, "INDEX")
  ELSE IF ch = 34 THEN (LET n == MString(cs, p) IN IF n = 0 THEN [k |-> "err", n |-> 0, c |-> ""] ELSE Tok(n, "STRING"))
  ELSE LET cm == MComment(cs, p) pu == BestPunct(cs, p) IN
       IF cm > pu[1] THEN [k |-> "skip", n |-> cm, c |-> ""]
       ELSE IF pu[1] > 0 THEN Tok(pu[1], pu[2]) ELSE [k |-> "err", n |-> 0, c |-> ""]

RECURSIVE LexFrom(_, _, _)
LexFrom(cs, p, acc) ==
  IF p > Len(cs) THEN [ok |-> TRUE, toks |-> acc]
  ELSE LET t == TokenAt(cs, p) IN
       IF t.k = "err" THEN [ok |-> FALSE, at |-> p]
       ELSE IF t.k = "skip" THEN LexFrom(cs, p + t.n, acc)
       ELSE LexFrom(cs, p + t.n, Append(acc, [c |-> t.c, s |-> SubSeq(cs, p, p + t.n - 1)]))
Lex(cs) == LexFrom(cs, 1, <<>>)

----------------------------------------------------------------------------
(* denotations of literal tokens: [ok, v] *)
DOk(v) == [ok |-> TRUE, v |-> v]
DFail == [ok |-> FALSE]

HexVal(c) == IF IsDigit(c) THEN c - 48 ELSE IF c >= 97 THEN c - 87 ELSE c - 55
RECURSIVE RadixMag(_, _, _, _)
RadixMag(cs, i, r, acc) == IF i > Len(cs) THEN acc ELSE RadixMag(cs, i + 1, r, MAdd(MMulSmall(acc, r), MFromNat(HexVal(cs[i]))))

DenoteInt(s) == LET body == Tail(s)                     \* after the 'i'
                    sg == IF body[1] = 45 THEN -1 ELSE 1
                    ds == IF body[1] = 43 \/ body[1] = 45 THEN Tail(body) ELSE body
                    z == Z(sg, MFromDigits(Digits(ds)))
                IN IF IntInRange(z) THEN DOk(VInt(z)) ELSE DFail
DenoteRadix(s, r) == LET ds == SubSeq(s, 3, Len(s)) IN
                     IF \E i \in 1..Len(ds) : HexVal(ds[i]) >= r THEN DFail          \* the digit 8 in 0o...
                     ELSE LET z == Z(1, RadixMag(ds, 1, r, <<>>)) IN IF IntInRange(z) THEN DOk(VInt(z)) ELSE DFail

\* split "[+-]?digits*.?digits+" into sign, digit string without the point, number of fractional digits
NumParts(body) == LET sg == IF body[1] = 45 THEN -1 ELSE 1
                      ds == IF body[1] = 43 \/ body[1] = 45 THEN Tail(body) ELSE body
                      dot == IF \E i \in 1..Len(ds) : ds[i] = 46 THEN CHOOSE i \in 1..Len(ds) : ds[i] = 46 ELSE 0
                      ip == IF dot = 0 THEN ds ELSE SubSeq(ds, 1, dot - 1)
                      fp == IF dot = 0 THEN <<>> ELSE SubSeq(ds, dot + 1, Len(ds))
                  IN [s |-> sg, digits |-> ip \o fp, frac |-> Len(fp)]
DenoteDecimal(s) == LET r == DecFromStr(Tail(s)) IN        \* the library's reader (Decimal.tla): scale included; inexact when digits were dropped
                    IF r.k = "invalid" THEN DFail ELSE [ok |-> TRUE, v |-> VDec(r.n, r.sc), exact |-> r.exact]
DenoteFloat(s) ==
  LET body == Tail(s)
      ei == IF \E i \in 1..Len(body) : body[i] = 101 \/ body[i] = 69
            THEN CHOOSE i \in 1..Len(body) : body[i] = 101 \/ body[i] = 69 ELSE 0
      mant == IF ei = 0 THEN body ELSE SubSeq(body, 1, ei - 1)
      expo == IF ei = 0 THEN <<>> ELSE SubSeq(body, ei + 1, Len(body))
      np == NumParts(mant)
      esg == IF expo # <<>> /\ expo[1] = 45 THEN -1 ELSE 1
      eds == IF expo # <<>> /\ (expo[1] = 43 \/ expo[1] = 45) THEN Tail(expo) ELSE expo
      ez == IF expo = <<>> THEN ZZero ELSE Z(esg, MFromDigits(Digits(eds)))
      k == ZSub(ez, ZFromInt(np.frac))
      m == MFromDigits(Digits(np.digits))
  IN DOk(VFloat(IF m = <<>> THEN FZero(np.s)
                ELSE IF ZCmp(k, ZFromInt(400)) > 0 THEN FInf(np.s)
                ELSE IF ZCmp(k, ZFromInt(-400 - Len(np.digits))) < 0 THEN FZero(np.s)
                ELSE FFromDecimal(np.s, m, ZToInt(k))))

\* string literal: the escapes are exactly \n \r \t \\ \' \" \u{hex}; anything else after a backslash fails
IsScalar(n) == (n >= 0 /\ n < 55296) \/ (n > 57343 /\ n <= 1114111)
RECURSIVE Unescape(_, _, _)
Unescape(cs, p, acc) ==
  IF p > Len(cs) THEN DOk(VStr(acc))
  ELSE IF cs[p] # 92 THEN Unescape(cs, p + 1, Append(acc, cs[p]))
  ELSE IF p + 1 > Len(cs) THEN DFail
  ELSE LET e == cs[p + 1] IN
       CASE e = 110 -> Unescape(cs, p + 2, Append(acc, 10))
         [] e = 114 -> Unescape(cs, p + 2, Append(acc, 13))
         [] e = 116 -> Unescape(cs, p + 2, Append(acc, 9))
         [] e = 92 -> Unescape(cs, p + 2, Append(acc, 92))
         [] e = 39 -> Unescape(cs, p + 2, Append(acc, 39))
         [] e = 34 -> Unescape(cs, p + 2, Append(acc, 34))
         [] e = 117 ->
              IF At(cs, p + 2) # 123 THEN DFail
              ELSE LET h == Run(IsHex, cs, p + 3) IN
                   IF h = 0 \/ At(cs, p + 3 + h) # 125 THEN DFail         \* empty, non-hex, or unterminated
                   ELSE LET hs == SubSeq(cs, p + 3, p + 2 + h)
                            mag == RadixMag(hs, 1, 16, <<>>)
                        IN IF Len(mag) > 2 THEN DFail                      \* >= 2^30: no such character
                           ELSE IF IsScalar(MToNat(mag)) THEN Unescape(cs, p + 4 + h, Append(acc, MToNat(mag)))
                           ELSE DFail
         [] OTHER -> DFail
DenoteString(s) == Unescape(SubSeq(s, 2, Len(s) - 1), 1, <<>>)

\* INDEX -> usize (64 bit)
DenoteIndex(s) == LET m == MFromDigits(Digits(s)) IN
                  IF MCmp(m, MSub(MPow2(64), <<1>>)) <= 0 THEN [ok |-> TRUE, m |-> m] ELSE DFail

Denote(t) ==
  CASE t.c = "STRING" -> DenoteString(t.s)
    [] t.c = "INT" -> DenoteInt(t.s)
    [] t.c = "HEX" -> DenoteRadix(t.s, 16)
    [] t.c = "OCT" -> DenoteRadix(t.s, 8)
    [] t.c = "BIN" -> DenoteRadix(t.s, 2)
    [] t.c = "FLOAT" -> DenoteFloat(t.s)
    [] t.c = "DECIMAL" -> DenoteDecimal(t.s)
    [] t.c = "true" -> DOk(VBool(TRUE))
    [] t.c = "false" -> DOk(VBool(FALSE))
    [] t.c = "none" -> DOk(VNone)
IsLiteralClass(c) == c \in {"STRING", "INT", "HEX", "OCT", "BIN", "FLOAT", "DECIMAL", "true", "false"}
=============================================================================
