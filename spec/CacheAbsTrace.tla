--------------------------- MODULE CacheAbsTrace ---------------------------
(***************************************************************************)
(* Trace validation of the real code against the abstract cache protocol   *)
(* CacheAbs.tla, directly (the third side of the triangle code - RuleSet   *)
(* machine - CacheAbs).  The trace is the `abs` field of the scenarios     *)
(* recorded by `conform record-sched` (random rulesets over scripted user   *)
(* functions, up to six evaluations under a random poll schedule with       *)
(* drops): what can be OBSERVED of the protocol without a hook inside the   *)
(* library -                                                               *)
(*   start e | finish e | drop e        logged by the recorder             *)
(*   invoke e f arg n | ret e f n ok    logged by the user functions       *)
(*                                      themselves at entry and at return   *)
(* ordered by one counter.  Each event is consumed by the action of        *)
(* CacheAbs of the same name; a cache hit is not observable and needs no    *)
(* step (it changes nothing).  The code is rejected when, e.g., a cacheable *)
(* function is entered although the evaluation's cache must hold the        *)
(* argument (Invoke is not enabled), or is NOT entered ... which shows as   *)
(* the next event of that evaluation being impossible only if results leak; *)
(* missing invocations are SchedTrace's business (it sees the values).      *)
(* One state per event; between two scenarios the protocol is re-started.   *)
(***************************************************************************)
EXTENDS Integers, Sequences, TLC, Json, IOUtils

Rec == ndJsonDeserialize(IOEnv.TRACE)

TEv == 1..6
TFn == {<<102>>, <<103>>, <<104>>, <<99>>}        \* f g h c   (the recorder's four functions)
TCacheable == {<<102>>, <<104>>}                  \* f h
TArg == 1..16                                    \* argument ids within one scenario (the recorder leaves out scenarios with more)
TNoF == <<>>
TNoA == 0

VARIABLES status, cached, count, infF, infA, infN, okInv, firstOk,
          r, l          \* scenario, next event within it
A == INSTANCE CacheAbs WITH Ev <- TEv, Fn <- TFn, CacheableFn <- TCacheable, Arg <- TArg, NoF <- TNoF, NoA <- TNoA

\* the recorder's functions are what the constants say (checked on every scenario)
EnvOK(rec) == \A i \in 1..Len(rec.env.funcs) :
                 /\ rec.env.funcs[i].name \in TFn
                 /\ (rec.env.funcs[i].cacheable <=> rec.env.funcs[i].name \in TCacheable)

Init == A!Init /\ r = 1 /\ l = 1

Consume(ev) ==
  CASE ev.a = "start"  -> A!Start(ev.e)
    [] ev.a = "finish" -> A!Finish(ev.e)
    [] ev.a = "drop"   -> A!Drop(ev.e)
    [] ev.a = "invoke" -> /\ ev.ai \in TArg
                          /\ A!Invoke(ev.e, ev.f, ev.ai)
                          /\ infN'[ev.e] = ev.n                 \* the ordinal the function itself counted
    [] ev.a = "ret"    -> /\ infN[ev.e] = ev.n /\ infF[ev.e] = ev.f
                          /\ IF ev.ok THEN A!ReturnOk(ev.e) ELSE A!ReturnFail(ev.e)

Next ==
  IF r > Len(Rec) THEN FALSE /\ UNCHANGED <<A!vars, r, l>>
  ELSE IF l <= Len(Rec[r].abs)
       THEN /\ (l = 1 => EnvOK(Rec[r]))
            /\ Consume(Rec[r].abs[l])
            /\ l' = l + 1 /\ r' = r
       ELSE \* next scenario: a new ruleset, new functions - everything starts over
            /\ status' = [e \in TEv |-> "idle"] /\ cached' = [k \in A!Key |-> 0] /\ count' = [f \in TFn |-> 0]
            /\ infF' = [e \in TEv |-> TNoF] /\ infA' = [e \in TEv |-> TNoA] /\ infN' = [e \in TEv |-> 0]
            /\ okInv' = [k \in A!Key |-> 0] /\ firstOk' = [k \in A!Key |-> 0]
            /\ r' = r + 1 /\ l' = 1

\* every state the code drove the protocol into satisfies the user-facing properties (the quadratic conjuncts of the
\* inductive invariant are Apalache's business; here: the ones that are linear in the number of cache keys)
Inv == A!AtMostOnce /\ A!RemembersFirstSuccess /\ A!NonCacheableNeverCached /\ A!NothingRemembered

\* acceptance: the whole trace was consumed (one state per event, one per scenario boundary, plus the initial one)
Total == LET RECURSIVE Sum(_) Sum(i) == IF i = 0 THEN 0 ELSE Len(Rec[i].abs) + 1 + Sum(i - 1) IN Sum(Len(Rec))
Accepted ==
  LET d == TLCGet("stats").diameter IN
  IF d = Total + 1 THEN TRUE
  ELSE PrintT(<<"CacheAbsTrace: rejected; events consumed (scenario boundaries included)", d - 1, "of", Total>>) /\ FALSE
=============================================================================
