------------------------------ MODULE MC_Session ------------------------------
(***************************************************************************)
(* End-to-end universe: every pair (and, in the thorough tier, triple) of  *)
(* rule texts from a pool that uses every syntactic form of the language,  *)
(* x a pool of serializable inputs (structs, options, enums, maps, lists,   *)
(* numbers at their limits, unserializable ones).  Compared: the error of  *)
(* the first step that fails, or every outcome of the evaluation.          *)
(***************************************************************************)
EXTENDS Session, TLC, Json

CONSTANT NTexts
VARIABLE c        \* [texts |-> sequence of pool indices, input]

Q == <<34>>
NL == <<10>>
TextPool == <<
  S("// adult") \o NL \o S("age >= i21"),
  S("// name check") \o NL \o S("// the name must be Bob") \o NL \o S("lowercase(trim(name)) == ") \o Q \o S("bob") \o Q,
  S("@name: ") \o Q \o S("score") \o Q \o S("; @weight: d1.50;") \o NL \o S("if age > i17 and not_member then (age - i18) * i2 + 0x10 % i7 else -i1"),
  S("// tags") \o NL \o S("tags contains ") \o Q \o S("vip") \o Q \o S(" or ") \o Q \o S("x") \o Q \o S(" in tags"),
  S("// nested") \o NL \o S("address.city == :home and address.zip.0 != none"),
  S("// money") \o NL \o S("dec(balance) / d3 >= d10.5 and round(f2.5) = f3"),
  S("// bits") \o NL \o S("flags & 0b0110 | 0x01 ^ i3"),
  S("// call") \o NL \o S("double(age) + double(age) > i40 and is_some(nick)"),
  S("// list") \o NL \o S("[age, int(f1.9), facts.age].2 + {a: i1, b: age}.b"),
  S("// when") \o NL \o S("year(datetime(born)) < i2000 and day(duration(i86400) - hour(i1)) == i0"),
  S("// adult") \o NL \o S("true"),
  S("// broken") \o NL \o S("age >= "),
  S("age >= i21"),
  S("// overflow") \o NL \o S("i170141183460469231731687303715884105727 + age"),
  S("// unknown") \o NL \o S("nofn(missing) or :nosym"),
  S("// unary") \o NL \o S("!(-age < i-20) and !is_none(name) and uppercase(name) contains ") \o Q \o S("B") \o Q >>

F(n, v) == <<S(n), v>>
Str(s) == [k |-> "str", cs |-> S(s)]
U(k, n) == [k |-> k, n |-> ZFromInt(n)]
InputPool == <<
  [k |-> "struct", name |-> S("Person"), fields |-> << F("age", U("u16", 34)), F("name", Str(" Bob ")), F("not_member", [k |-> "bool", b |-> TRUE]),
       F("tags", [k |-> "seq", xs |-> <<Str("vip"), Str("x")>>]), F("address", [k |-> "struct", name |-> S("A"), fields |-> << F("city", Str("Utrecht")), F("zip", [k |-> "tuple", xs |-> <<U("u8", 35), U("u8", 1)>>]) >>]),
       F("balance", [k |-> "f64", f |-> FNorm(1, MFromNat(63), -1)]), F("flags", U("i32", 5)), F("nick", [k |-> "none"]), F("born", Str("1990-05-01T12:00:00Z")) >>],
  [k |-> "struct", name |-> S("Person"), fields |-> << F("age", U("i64", 16)), F("name", [k |-> "some", x |-> Str("alice")]), F("not_member", [k |-> "bool", b |-> FALSE]),
       F("tags", [k |-> "seq", xs |-> <<>>]), F("address", [k |-> "none"]), F("balance", U("u8", 30)), F("flags", U("u64", 6)),
       F("nick", [k |-> "unit_variant", name |-> S("E"), variant |-> S("Al")]), F("born", Str("2015-02-30T00:00:00Z")) >>],
  [k |-> "map", kv |-> << <<Str("age"), [k |-> "i128", n |-> I128Max]>>, <<Str("name"), U("u8", 1)>> >>],
  [k |-> "newtype_variant", name |-> S("E"), variant |-> S("age"), x |-> U("u8", 21)],
  [k |-> "unit"],
  U("u8", 21),
  [k |-> "struct", name |-> S("Bad"), fields |-> << F("age", [k |-> "u128", n |-> ZPow2(127)]) >>],
  [k |-> "map", kv |-> << <<U("u8", 1), U("u8", 2)>> >>],
  \* a key emitted twice (flattened extras shadowing a named field): the later entry is the data
  [k |-> "map", kv |-> << <<Str("age"), U("u8", 10)>>, <<Str("name"), Str("Bob")>>, <<Str("tags"), [k |-> "seq", xs |-> <<Str("x")>>]>>, <<Str("age"), U("u8", 40)>>, <<Str("name"), Str("Rob")>> >>],
  [k |-> "mapkv", kv |-> << <<Str("name"), Str("bob")>>, <<Str("age"), U("u8", 40)>>, <<Str("address"), [k |-> "mapkv", kv |-> << <<Str("zip"), [k |-> "seq", xs |-> <<U("u8", 1)>>]>>, <<Str("city"), Str("Utrecht")>>, <<Str("zip"), [k |-> "seq", xs |-> <<[k |-> "none"]>>]>> >>]>>, <<Str("age"), U("u8", 10)>> >>] >>

Funcs == << [name |-> S("double"), cacheable |-> TRUE, suspend |-> 0, script |-> <<[r |-> "double"]>>] >>
Syms == << <<S("home"), VStr(S("Utrecht"))>> >>

Init == c \in {[texts |-> <<>>, input |-> i] : i \in 1..Len(InputPool)}
Next == /\ Len(c.texts) < NTexts
        /\ \E t \in 1..Len(TextPool) : c' = [c EXCEPT !.texts = Append(@, t)]

Result == RunSession([i \in 1..Len(c.texts) |-> TextPool[c.texts[i]]], InputPool[c.input], Funcs, Syms)
Emit == c.texts # <<>> =>
        LET r == Result IN
        (r.k = "ok" /\ r.taint) \/ PrintT("CASE " \o ToJson([texts |-> [i \in 1..Len(c.texts) |-> TextPool[c.texts[i]]], term |-> InputPool[c.input],
                                                                 funcs |-> Funcs, syms |-> Syms, x |-> r, key |-> "session"]))
=============================================================================
