------------------------------- MODULE Convert -------------------------------
(***************************************************************************)
(* Conversions between Value and Rust types (C17).                         *)
(*   Extract(T, v): Ok(the value, unchanged) | Err("Overflow") |           *)
(*                  ErrP("WrongKind", v)                                   *)
(* An integer target succeeds exactly when the number lies within the      *)
(* target's range; a scalar target of another kind succeeds exactly on its *)
(* own variant; a list / map target succeeds exactly when every element    *)
(* converts, and otherwise fails with the error of the first element (in   *)
(* list order / key order) that does not.                                  *)
(***************************************************************************)
EXTENDS Ops

IntTargets == <<"i8", "i16", "i32", "i64", "i128", "u8", "u16", "u32", "u64", "u128">>
Lo(T) == CASE T = "i8" -> ZNeg(ZPow2(7)) [] T = "i16" -> ZNeg(ZPow2(15)) [] T = "i32" -> ZNeg(ZPow2(31))
           [] T = "i64" -> ZNeg(ZPow2(63)) [] T = "i128" -> ZNeg(ZPow2(127)) [] OTHER -> ZZero
Hi(T) == CASE T = "i8" -> ZSub(ZPow2(7), ZOne) [] T = "i16" -> ZSub(ZPow2(15), ZOne) [] T = "i32" -> ZSub(ZPow2(31), ZOne)
           [] T = "i64" -> ZSub(ZPow2(63), ZOne) [] T = "i128" -> ZSub(ZPow2(127), ZOne)
           [] T = "u8" -> ZSub(ZPow2(8), ZOne) [] T = "u16" -> ZSub(ZPow2(16), ZOne) [] T = "u32" -> ZSub(ZPow2(32), ZOne)
           [] T = "u64" -> ZSub(ZPow2(64), ZOne) [] T = "u128" -> ZSub(ZPow2(128), ZOne)
IsIntTarget(T) == \E i \in 1..Len(IntTargets) : IntTargets[i] = T
ScalarKind(T) == CASE T = "f64" -> "Float" [] T = "bool" -> "Bool" [] T = "string" -> "Str" [] T = "decimal" -> "Dec"
                   [] T = "datetime" -> "DT" [] T = "duration" -> "Dur" [] T = "value" -> "any"

ExtractScalar(T, v) ==
  IF IsIntTarget(T) THEN
       (IF v.t # "Int" THEN ErrP("WrongKind", v)
        ELSE IF ZInRange(v.n, Lo(T), Hi(T)) THEN Ok(v) ELSE Err("Overflow"))
  ELSE IF ScalarKind(T) = "any" \/ v.t = ScalarKind(T) THEN Ok(v) ELSE ErrP("WrongKind", v)

\* element-wise, first failure wins
RECURSIVE FirstFailure(_, _, _)
FirstFailure(T, vs, i) == IF i > Len(vs) THEN [ok |-> TRUE]
                          ELSE LET r == ExtractScalar(T, vs[i]) IN IF r.ok THEN FirstFailure(T, vs, i + 1) ELSE r
\* C = "vec" | "hmap" | "bmap"
ExtractContainer(C, T, v) ==
  IF C = "vec" THEN (IF v.t # "Vec" THEN ErrP("WrongKind", v)
                     ELSE LET f == FirstFailure(T, v.xs, 1) IN IF f.ok THEN Ok(v) ELSE f)
  ELSE (IF v.t # "Map" THEN ErrP("WrongKind", v)
        ELSE LET f == FirstFailure(T, [i \in 1..Len(v.kv) |-> v.kv[i][2]], 1) IN IF f.ok THEN Ok(v) ELSE f)
=============================================================================
