------------------------------ MODULE RuleText ------------------------------
(***************************************************************************)
(* Rule text -> (name, metadata, expression) | parse error | missing name  *)
(* (C14).  The expression and the @key: value; items come from the grammar *)
(* (ParseRuleToks); name and description may also come from // comment     *)
(* lines, which are found line by line in the raw text.                    *)
(***************************************************************************)
EXTENDS Grammar

\* str::lines: split at \n; a \r immediately before that \n belongs to the terminator
RECURSIVE LinesR(_, _, _)
LinesR(cs, p, cur) ==
  IF p > Len(cs) THEN (IF cur = <<>> THEN <<>> ELSE <<cur>>)
  ELSE IF cs[p] = 10 THEN
       <<IF cur # <<>> /\ cur[Len(cur)] = 13 THEN SubSeq(cur, 1, Len(cur) - 1) ELSE cur>> \o LinesR(cs, p + 1, <<>>)
  ELSE LinesR(cs, p + 1, Append(cur, cs[p]))
Lines(cs) == LinesR(cs, 1, <<>>)

\* the text of a comment line (trimmed), for lines whose first non-blank characters are //
IsCommentLine(line) == LET t == TrimStart(line) IN Len(t) >= 2 /\ t[1] = 47 /\ t[2] = 47
CommentText(line) == LET t == TrimStart(line) IN Trim(SubSeq(t, 3, Len(t)))
CommentLines(cs) == LET ls == Lines(cs) IN
                    [i \in 1..Len(SelectSeq(ls, IsCommentLine)) |-> CommentText(SelectSeq(ls, IsCommentLine)[i])]

RECURSIVE JoinNL(_, _)
JoinNL(ls, i) == IF i > Len(ls) THEN <<>> ELSE (IF i = 1 THEN <<>> ELSE <<10>>) \o ls[i] \o JoinNL(ls, i + 1)

\* a metadata value must be a constant: a literal, or a list / map of constants
RECURSIVE Flatten(_)
Flatten(e) ==
  CASE e.k = "val" -> [ok |-> TRUE, v |-> e.v]
    [] e.k = "vec" -> LET xs == [i \in 1..Len(e.a) |-> Flatten(e.a[i])] IN
                      IF \A i \in 1..Len(xs) : xs[i].ok THEN [ok |-> TRUE, v |-> VVec([i \in 1..Len(xs) |-> xs[i].v])]
                      ELSE [ok |-> FALSE]
    [] e.k = "map" -> LET xs == [i \in 1..Len(e.kv) |-> Flatten(e.kv[i][2])] IN
                      IF \A i \in 1..Len(xs) : xs[i].ok
                      THEN [ok |-> TRUE, v |-> VMap([i \in 1..Len(xs) |-> <<e.kv[i][1], xs[i].v>>])]
                      ELSE [ok |-> FALSE]
    [] OTHER -> [ok |-> FALSE]

NameKey == S("name")
DescKey == S("description")

\* fold the @items: [ok, name |-> <<>> or <<cps>>, meta |-> sorted <<key, value>> list]
RECURSIVE FoldMeta(_, _, _, _)
FoldMeta(items, i, name, meta) ==
  IF i > Len(items) THEN [ok |-> TRUE, name |-> name, meta |-> meta]
  ELSE LET key == items[i][1] f == Flatten(items[i][2]) IN
       IF ~f.ok THEN [ok |-> FALSE]                                  \* non-constant value
       ELSE IF key = NameKey THEN
            (IF f.v.t = "Str" THEN FoldMeta(items, i + 1, <<f.v.cs>>, meta) ELSE [ok |-> FALSE])   \* @name must be a string
       ELSE FoldMeta(items, i + 1, name, MapPut(meta, key, f.v))                                   \* last occurrence wins

ParseError == [k |-> "parse"]
MissingName == [k |-> "missing"]

\* from the tokens of the text (and the raw text for its comment lines)
RuleFromToks(toks, cs) ==
       LET r == ParseRuleToks(toks) IN
       IF ~r.ok THEN ParseError
       ELSE LET m == FoldMeta(r.meta, 1, <<>>, <<>>) IN
            IF ~m.ok THEN ParseError
            ELSE LET cl == CommentLines(cs)
                     name == IF m.name # <<>> THEN m.name ELSE IF cl # <<>> THEN <<cl[1]>> ELSE <<>>
                     meta == IF Len(cl) >= 2 /\ ~MapHas(m.meta, DescKey)
                             THEN MapPut(m.meta, DescKey, VStr(JoinNL(Tail(cl), 1))) ELSE m.meta
                 IN IF name = <<>> THEN MissingName
                    ELSE [k |-> "ok", name |-> name[1], meta |-> meta, expr |-> r.t]

ParseRuleText(cs) == LET l == Lex(cs) IN IF ~l.ok THEN ParseError ELSE RuleFromToks(l.toks, cs)

\* description(): the "description" entry when it is a string
Description(res) == IF MapHas(res.meta, DescKey) /\ MapGet(res.meta, DescKey).t = "Str"
                    THEN <<MapGet(res.meta, DescKey).cs>> ELSE <<>>
=============================================================================
