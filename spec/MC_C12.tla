------------------------------- MODULE MC_C12 -------------------------------
(***************************************************************************)
(* C12 / C18b: evaluation is deterministic, side-effect free and           *)
(* independent of the schedule.                                            *)
(* Every user-function call suspends kf / kg times (0..K, chosen in Init); *)
(* up to MaxEvals evaluations of ONE ruleset are started, at most MaxLive  *)
(* at a time; TLC explores every interleaving of polls (Grain = "poll":    *)
(* the executor's grain) or of machine micro-steps (Grain = "step": the    *)
(* grain at which threads interleave), and Drop(e) at every point.         *)
(* `hist` records the schedule so that each behaviour can be replayed into *)
(* the implementation poll by poll (it is what makes behaviours distinct). *)
(***************************************************************************)
EXTENDS RuleSet, TLC, Json, FiniteSets

CONSTANTS K, MaxEvals, MaxLive, Grain, AllowDrop, NRules, Shape

VARIABLES rsv,     \* the ruleset (must never change)
          cfg,     \* [kf, kg, same] chosen initially
          evals, gs, hist
vars == <<rsv, cfg, evals, gs, hist>>

A == Ref(S("a"))
Echo == <<[r |-> "echo"]>>
MkRS(kf, kg) ==
  [rules |-> SubSeq(<< [name |-> S("r1"), expr |-> VecE(<<Call(S("f"), A), Call(S("g"), A)>>)],
                       [name |-> S("r2"), expr |-> Bin("add", Call(S("f"), A), Val(I(1)))],
                       [name |-> S("r3"), expr |-> Call(S("g"), Call(S("f"), Val(I(5))))],
                       \* reaches an unregistered function / symbol only when a < 2: a failed evaluation must not change later ones
                       [name |-> S("r4"), expr |-> If(Bin("lt", A, Val(I(2))), Call(S("nofn"), A), Bin("add", A, Val(I(1))))],
                       [name |-> S("r5"), expr |-> Bin("or", Bin("gt", A, Val(I(1))), Bin("eq", Sym(S("nosym")), A))],
                       \* reads neither the input nor a function: its value depends on THIS ruleset's symbol table only
                       [name |-> S("r6"), expr |-> Bin("mult", Sym(S("k")), Val(I(2)))],
                       \* a user function that fails (after suspending): the error names the function and carries its message
                       [name |-> S("r7"), expr |-> Call(S("h"), A)],
                       \* a cast that parses text (the multi-threaded recorder supplies many different `s`)
                       [name |-> S("r8"), expr |-> VecE(<<Un("year", Un("datetime", Ref(S("s")))), Bin("lt", Un("datetime", Ref(S("s"))), Un("datetime", Val(St("2015-07-30T03:26:13Z"))))>>)] >>, 1, IF NRules < 8 THEN NRules ELSE 8),
   funcs |-> << [name |-> S("f"), cacheable |-> TRUE, suspend |-> kf, script |-> Echo],
                \* (g doubles its Int argument: f and g must be told apart by their results, not only by the log)
                [name |-> S("g"), cacheable |-> FALSE, suspend |-> kg, script |-> <<[r |-> "double"]>>],
                [name |-> S("h"), cacheable |-> FALSE, suspend |-> kg, script |-> <<[r |-> "fail", msg |-> S("h failed")]>>] >>,
   syms |-> << <<S("k"), I(10 + kf + 3 * kg)>> >>]
\* Shape = "full": the three-rule ruleset, inputs all equal or all different.
\* Shape = "single": only rule r2 (one cacheable call f(a)); evaluation 1 gets a = 1, all later ones a = 2, so that
\* an evaluation abandoned inside f(2) is followed by a fresh evaluation that calls f(2) first.
InputOf(id) == VMap(<< <<S("a"), I(IF Shape = "single" THEN (IF id = 1 THEN 1 ELSE 2) ELSE IF cfg.same THEN 1 ELSE id)>> >>)

\* Shape = "many": NRules rules (every seventh calls the cacheable f, the others are arithmetic on the input)
RECURSIVE DecS(_)
DecS(n) == IF n < 10 THEN <<48 + n>> ELSE DecS(n \div 10) \o <<48 + (n % 10)>>
ManyRS(kf, kg) == LET full == MkRS(kf, kg) IN
  [full EXCEPT !.rules = [k \in 1..NRules |-> [name |-> <<114>> \o DecS(k),
                                                 expr |-> IF k % 7 = 0 THEN Call(S("f"), Bin("add", A, Val(I(k \div 7)))) ELSE Bin("add", A, Val(I(k)))]]]
\* Shape = "plain": no user functions at all; rules r4 (reaches an unregistered function when a < 2), r5, r6
PlainRS(kf, kg) == LET full == MkRS(kf, kg) IN [full EXCEPT !.rules = SubSeq(full.rules, 4, 6), !.funcs = <<>>]
SingleRS(kf, kg) == LET full == MkRS(kf, kg) IN [full EXCEPT !.rules = <<full.rules[2]>>]
\* Shape = "refine" (MC_Refine): a cacheable function c whose FIRST invocation fails (a failed call is not remembered,
\* the next call invokes it again and that result is), next to the cacheable f and the non-cacheable g
RefineRS(kf, kg) ==
  [rules |-> SubSeq(<< [name |-> S("r1"), expr |-> Call(S("c"), A)],
                       [name |-> S("r2"), expr |-> VecE(<<Call(S("c"), A), Call(S("f"), A)>>)],
                       [name |-> S("r3"), expr |-> VecE(<<Call(S("c"), A), Call(S("f"), A), Call(S("g"), A), Call(S("g"), A)>>)],
                       [name |-> S("r4"), expr |-> Call(S("f"), Call(S("g"), Val(I(5))))] >>, 1, IF NRules < 4 THEN NRules ELSE 4),
   funcs |-> << [name |-> S("f"), cacheable |-> TRUE, suspend |-> kf, script |-> Echo],
                [name |-> S("g"), cacheable |-> FALSE, suspend |-> kg, script |-> <<[r |-> "double"]>>],
                [name |-> S("c"), cacheable |-> TRUE, suspend |-> kf, script |-> <<[r |-> "fail", msg |-> S("c1")], [r |-> "tagged"]>>] >>,
   syms |-> <<>>]
TheRS == IF Shape = "single" THEN SingleRS(cfg.kf, cfg.kg) ELSE IF Shape = "many" THEN ManyRS(cfg.kf, cfg.kg)
         ELSE IF Shape = "plain" THEN PlainRS(cfg.kf, cfg.kg) ELSE IF Shape = "refine" THEN RefineRS(cfg.kf, cfg.kg)
         ELSE MkRS(cfg.kf, cfg.kg)
\* K > 5 is the scale configuration: a user function that suspends K times (an evaluation polled hundreds of times)
Ks == IF K <= 5 THEN 0..K ELSE {0, K}
Init == /\ cfg \in [kf : Ks, kg : Ks, same : BOOLEAN]
        /\ rsv = TheRS
        /\ evals = <<>> /\ gs = InitGs(rsv) /\ hist = <<>>

Live == {e \in 1..Len(evals) : evals[e].status \in {"run", "ready"}}

Start == /\ Len(evals) < MaxEvals /\ Cardinality(Live) < MaxLive
         /\ evals' = Append(evals, StartEval(rsv, InputOf(Len(evals) + 1)))
         /\ hist' = Append(hist, [a |-> "start", e |-> Len(evals) + 1])
         /\ UNCHANGED <<rsv, cfg, gs>>

Poll(e) == /\ Grain = "poll" /\ e \in Live
           /\ LET r == PollEval(rsv, evals[e], gs, e) IN
                /\ evals' = [evals EXCEPT ![e] = r.ev]
                /\ gs' = r.gs
                /\ hist' = Append(hist, [a |-> "poll", e |-> e, ready |-> r.ev.status = "done", ncalls |-> Len(r.gs.calls)])
           /\ UNCHANGED <<rsv, cfg>>

Step1(e) == /\ Grain = "step" /\ e \in Live
            /\ LET r == MicroStep(rsv, evals[e], gs, e) IN
                 /\ evals' = [evals EXCEPT ![e] = r.ev]
                 /\ gs' = r.gs
            /\ UNCHANGED <<rsv, cfg, hist>>

Drop(e) == /\ AllowDrop /\ e \in Live /\ evals[e].status = "run"
           /\ evals' = [evals EXCEPT ![e].status = "dropped"]
           /\ hist' = Append(hist, [a |-> "drop", e |-> e])
           /\ UNCHANGED <<rsv, cfg, gs>>

Next == Start \/ \E e \in 1..MaxEvals : Poll(e) \/ Step1(e) \/ Drop(e)
SpecSafe == Init /\ [][Next]_vars
Spec == Init /\ [][Next]_vars /\ \A e \in 1..MaxEvals : WF_vars(Poll(e)) /\ WF_vars(Step1(e))

Finished == Len(evals) = MaxEvals /\ Live = {}

\* outcomes are a function of ruleset and input only
Deterministic ==
  \A e \in 1..Len(evals) : evals[e].status = "done" =>
     evals[e].outcomes = DenRuleSet(rsv, evals[e].input, e, [j \in 1..Len(rsv.funcs) |-> 0]).outcomes
\* the ruleset and the inputs never change
NoSideEffects == /\ rsv = TheRS
                 /\ \A e \in 1..Len(evals) : evals[e].input = InputOf(e)
\* nothing leaks between evaluations: a cache only ever holds results of its own evaluation's calls
NoLeak ==
  \A e \in 1..Len(evals) : \A i \in 1..Len(evals[e].ms.cache) :
     LET en == evals[e].ms.cache[i] IN
     \E j \in 1..Len(gs.calls) : gs.calls[j].ev = e /\ gs.calls[j].f = en.f /\ gs.calls[j].arg = en.a
\* every evaluation that is not dropped completes
Termination == <>(\A e \in 1..Len(evals) : evals[e].status \in {"done", "dropped"})

Emit == (Finished /\ Grain = "poll") =>
   PrintT("CASE " \o ToJson([env |-> [funcs |-> rsv.funcs, syms |-> rsv.syms], rules |-> rsv.rules,
                             inputs |-> [e \in 1..Len(evals) |-> evals[e].input], schedule |-> hist,
                             x |-> [e \in 1..Len(evals) |-> evals[e].outcomes], calls |-> gs.calls, key |-> "C12"]))
=============================================================================
