------------------------------- MODULE MC_Dates -------------------------------
(***************************************************************************)
(* C02 (date / time / duration functions): calendar boundaries.            *)
(* Instants: for a set of years (epoch, leap and non-leap, century and     *)
(* 400-year boundaries, year 1, negative years, 5-digit years, the first   *)
(* and last representable year) x every month x {first, last day} x three  *)
(* times of day; each through year, month, day, hour, minute, second and   *)
(* through +/- a day, a second, a nanosecond, 31 days, and compared with   *)
(* its neighbour.  Durations: positive and negative, whole and fractional, *)
(* around each unit boundary, through week .. second.                      *)
(***************************************************************************)
EXTENDS Ops, TLC, Json

VARIABLE c

Years == {1970, 1969, 2000, 2023, 2024, 1900, 2100, 1, 0, -1, 9999, 10000, 262142, -262143}
IsLeap(y) == (y % 4 = 0 /\ y % 100 # 0) \/ y % 400 = 0
LastDay(y, m) == CASE m \in {1, 3, 5, 7, 8, 10, 12} -> 31 [] m \in {4, 6, 9, 11} -> 30 [] OTHER -> IF IsLeap(y) THEN 29 ELSE 28
Times == { <<0, 0, 0, ZZero>>, <<23, 59, 59, ZFromDigits(<<9,9,9,9,9,9,9,9,9>>)>>, <<12, 34, 56, ZFromInt(500000000)>> }
DT(y, m, d, t) == VDT(Instant(y, m, d, t[1], t[2], t[3], t[4]))

Sec(n) == VDur(ZMul(ZFromInt(n), NsPerSec))
Ns(n) == VDur(ZFromInt(n))
Deltas == { Sec(86400), Sec(-86400), Sec(1), Sec(-1), Ns(1), Ns(-1), Sec(2678400), Sec(-31536000) }
Durs == { Sec(0), Sec(59), Sec(60), Sec(61), Sec(3599), Sec(3600), Sec(86399), Sec(86400), Sec(604799), Sec(604800), Sec(604801),
          Sec(-59), Sec(-60), Sec(-61), Sec(-3600), Sec(-86399), Sec(-86400), Sec(-604799), Sec(-604800),
          VDur(ZFromDigits(<<1,5,0,0,0,0,0,0,0,0>>)), VDur(ZNeg(ZFromDigits(<<1,5,0,0,0,0,0,0,0,0>>))), Ns(999999999), Ns(-999999999),
          VDur(ZNeg(ZFromDigits(<<5,9,9,9,9,9,9,9,9,9,9>>))), VDur(DurMaxNs), VDur(DurMinNs) }

Init == c \in {[stage |-> 0, y |-> y, m |-> m] : y \in Years, m \in 1..12} \cup {[stage |-> 0, y |-> 0, m |-> 0]}
Next == /\ c.stage = 0
        /\ IF c.m = 0
           THEN \E k \in {"week", "day", "hour", "minute", "second", "duration", "neg"}, d \in Durs : c' = [stage |-> 1, k |-> k, a |-> <<d>>]
           ELSE \E d \in {1, LastDay(c.y, c.m)}, t \in Times :
                  LET v == DT(c.y, c.m, d, t) IN
                  IF ~DTInRange(v.n) THEN c' = [stage |-> 2]
                  ELSE \/ \E k \in {"year", "month", "day", "hour", "minute", "second"} : c' = [stage |-> 1, k |-> k, a |-> <<v>>]
                       \/ \E k \in {"add", "sub"}, dl \in Deltas : c' = [stage |-> 1, k |-> k, a |-> <<v, dl>>]
                       \/ \E k \in {"sub", "gt", "lte", "eq"} : c' = [stage |-> 1, k |-> k, a |-> <<v, DT(c.y, c.m, 1, <<0, 0, 0, ZZero>>)>>]

Outcome == IF Len(c.a) = 1 THEN Unary(c.k, c.a[1])
           ELSE IF c.k = "eq" THEN LazyBinary("eq", c.a[1], c.a[2]) ELSE Binary(c.k, c.a[1], c.a[2])
\* the calendar fields recompose the instant; adding and subtracting a delta are inverse where both are defined
FieldsRecompose ==
  (c.stage = 1 /\ Len(c.a) = 1 /\ c.a[1].t = "DT" /\ c.k = "second") =>
     LET f(u) == ZToInt(Unary(u, c.a[1]).v.n) IN
     Instant(f("year"), f("month"), f("day"), f("hour"), f("minute"), f("second"), ZZero) = ZMul(EpochSec(c.a[1].n), NsPerSec)
Emit == c.stage = 1 => PrintT("CASE " \o ToJson([k |-> c.k, a |-> c.a, x |-> Outcome]))
=============================================================================
