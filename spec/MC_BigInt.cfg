INIT Init
NEXT Next
