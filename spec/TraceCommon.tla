----------------------------- MODULE TraceCommon -----------------------------
(***************************************************************************)
(* Shared by the trace specifications (implementation -> specification).   *)
(* An observation recorded from the code is                                *)
(*   [ok |-> TRUE, v |-> value]  |  [ok |-> FALSE, variant |-> "...",      *)
(*    p |-> payload value (if any), n |-> name (if any), msg |-> text]     *)
(*   |  [panic |-> text]                                                   *)
(* ObsMatches(spec outcome, observation) is the comparison relation of     *)
(* DESIGN 4.4 on the TLA+ side.                                            *)
(***************************************************************************)
EXTENDS Eval

Accepts(class) ==
  CASE class = "Type" -> {"InvalidType"} [] class = "Div" -> {"DivisionByZero"} [] class = "Cast" -> {"InvalidCast"}
    [] class = "Bounds" -> {"ValueOutOfBounds"} [] class = "Range" -> {"ValueOutOfBounds", "NumericOverflow", "InvalidCast"}
    [] class = "UnknownRef" -> {"UnknownRef"} [] class = "Symbol" -> {"InvalidSymbol"} [] class = "UnknownFn" -> {"UnknownUserFunction"}
    [] class = "FnError" -> {"UserFunctionError"} [] OTHER -> {}

Has(r, f) == f \in DOMAIN r
\* value equality as the harness sees it: NaN matches NaN, the sign of a zero result is not compared,
\* decimals numerically; everything else exactly
RECURSIVE SameValue(_, _)
SameValue(a, b) ==
  IF a.t # b.t THEN FALSE
  ELSE CASE a.t = "Float" -> (a.f.c = "nan" /\ b.f.c = "nan") \/ FEq(a.f, b.f)
         [] a.t = "Dec" -> DCmp(a.n, a.sc, b.n, b.sc) = 0
         [] a.t = "Vec" -> Len(a.xs) = Len(b.xs) /\ \A i \in 1..Len(a.xs) : SameValue(a.xs[i], b.xs[i])
         [] a.t = "Map" -> Len(a.kv) = Len(b.kv) /\ \A i \in 1..Len(a.kv) : a.kv[i][1] = b.kv[i][1] /\ SameValue(a.kv[i][2], b.kv[i][2])
         [] OTHER -> a = b

ObsMatches(spec, obs) ==
  IF Has(obs, "panic") THEN FALSE
  ELSE IF Has(spec, "ap") THEN
       \* an approximate (or tainted) prescription: only the kind of outcome is compared here (the exact
       \* tolerance is applied by the replay engine on the enumerated cells)
       (IF spec.ap \in {"unmodelled", "tainted"} THEN TRUE ELSE obs.ok /\ obs.v.t = spec.v.t)
  ELSE IF spec.ok THEN obs.ok /\ SameValue(spec.v, obs.v)
  ELSE IF Has(spec, "alt") /\ obs.ok THEN SameValue(spec.alt.v, obs.v)
  ELSE /\ ~obs.ok
       /\ obs.variant \in Accepts(spec.e)
       /\ (Has(spec, "p") /\ spec.e \in {"Cast", "Bounds"} => Has(obs, "p") /\ ((spec.p.t = "Float" /\ spec.p.f.c = "nan" /\ obs.p.t = "Float") \/ SameValue(spec.p, obs.p)))
       /\ (Has(spec, "n") => Has(obs, "n") /\ obs.n = spec.n)
       /\ (Has(spec, "msg") => obs.msg = spec.msg)

\* invocation logs are compared on (function, argument)
CallsMatch(specCalls, obsCalls) ==
  /\ Len(specCalls) = Len(obsCalls)
  /\ \A i \in 1..Len(specCalls) : specCalls[i].f = obsCalls[i].f /\ SameValue(specCalls[i].arg, obsCalls[i].arg)
=============================================================================
