------------------------------- MODULE MC_C09 -------------------------------
(***************************************************************************)
(* C09: a ruleset yields one outcome per rule, in order, each isolated.    *)
(* Universe: every sequence of at most MaxRules rules drawn from a pool of *)
(* rule shapes (constant, field read, each error class, user-function      *)
(* calls that succeed or fail), x inputs (map, other map, non-map, None)   *)
(* x every failure pattern of the two (deterministic) user functions.      *)
(***************************************************************************)
EXTENDS RuleSet, TLC, Json

CONSTANTS MaxRules,
          PoolSel       \* "all": the rule pool below; "pairs": only its last six rules (two pairs of rules that are EQUAL as
                        \* expressions under the library's notion of equality but not identical: 0.0 / -0.0, d1.0 / d1.00)
VARIABLE c        \* [rules |-> sequence of pool indices, inp, fp]

A == Ref(S("a"))
RulePool == <<
  Val(I(1)),
  A,
  Bin("add", Val(I(1)), Val(St("x"))),             \* type error
  Bin("div", A, Val(I(0))),                         \* division by zero (type error on non-Int a)
  Ref(S("zz")),                                     \* unknown reference
  Sym(S("zz")),                                     \* unknown symbol
  Call(S("nofn"), Val(I(1))),                       \* unknown function
  Call(S("f"), A),
  Call(S("g"), A),
  Bin("add", Call(S("f"), A), Call(S("f"), Sym(S("s")))),
  If(Bin("gt", A, Val(I(1))), Call(S("g"), Val(I(9))), Val(St("small"))),
  Bin("sub", Val(VDur(DurMaxNs)), Val(VDur(DurMinNs))),          \* out of range (a panic here would lose every outcome)
  Bin("add", Val(VInt(I128Max)), A),
  \* two calls of the cacheable f whose arguments are long and differ only at their far end
  VecE(<<Call(S("f"), A), Call(S("f"), Sym(S("l")))>>),
  Bin("div", Val(Fl(1, 1, 0)), Val(VFloat(FZero(1)))),          \* +inf
  Bin("div", Val(Fl(1, 1, 0)), Val(VFloat(FZero(-1)))),         \* -inf: the same expression up to the sign of a zero
  VecE(<<Val(Dc(10, 1)), Val(St("d1.0"))>>),
  VecE(<<Val(Dc(100, 2)), Val(St("d1.00"))>>),
  \* the cacheable f on two instants / two durations that differ only below one second
  VecE(<<Call(S("f"), Val(VDT(Z(1, <<17536, 11275, 28293, 8108, 1>>)))), Call(S("f"), Val(VDT(Z(1, <<10624, 26534, 28293, 8108, 1>>))))>>),
  VecE(<<Call(S("f"), Val(VDur(Z(1, <<31872, 5378, 1>>)))), Call(S("f"), Val(VDur(Z(1, <<24960, 20637, 1>>))))>>) >>
PoolIdx == IF PoolSel = "pairs" THEN (Len(RulePool) - 5)..Len(RulePool) ELSE 1..(Len(RulePool) - 6)
LongStr(n, last) == VStr([i \in 1..n |-> IF i = n THEN 48 + last ELSE 97 + (i % 7)])

Inputs == << VMap(<< <<S("a"), I(1)>> >>), VMap(<< <<S("a"), I(2)>>, <<S("zz"), I(5)>> >>), I(7), VNone, VMap(<< <<S("a"), VNone>> >>),
            VMap(<< <<S("a"), LongStr(70, 1)>> >>) >>

OkEcho == <<[r |-> "echo"]>>
Fails(msg) == <<[r |-> "fail", msg |-> S(msg)]>>
\* failure patterns: <<f fails?, g fails?>>
Patterns == << <<FALSE, FALSE>>, <<FALSE, TRUE>>, <<TRUE, FALSE>>, <<TRUE, TRUE>> >>
Funcs(fp) == << [name |-> S("f"), cacheable |-> TRUE, suspend |-> 0, script |-> IF Patterns[fp][1] THEN Fails("f failed") ELSE OkEcho],
                \* g's failure is an error value of the library itself (what `param.try_into()?` produces in a user function)
                [name |-> S("g"), cacheable |-> FALSE, suspend |-> 0, script |-> IF Patterns[fp][2] THEN <<[r |-> "failtype"]>> ELSE OkEcho] >>

RName(i) == <<114, 48 + i>>      \* "r1", "r2", ...
RS == [rules |-> [i \in 1..Len(c.rules) |-> [name |-> RName(i), expr |-> RulePool[c.rules[i]]]],
       funcs |-> Funcs(c.fp), syms |-> << <<S("l"), LongStr(70, 2)>>, <<S("s"), I(1)>> >>]
Input == Inputs[c.inp]

Init == c \in {[rules |-> <<>>, inp |-> i, fp |-> p] : i \in 1..Len(Inputs), p \in 1..Len(Patterns)}
Next == /\ Len(c.rules) < MaxRules
        /\ \E r \in PoolIdx : c' = [c EXCEPT !.rules = Append(@, r)]

Run == RunEval(RS, StartEval(RS, Input), InitGs(RS), 1)

\* one invariant so that the run is computed once per state
OneOutcomePerRuleIsolated ==
  LET run == Run
      outs == run.ev.outcomes
      d == DenRuleSet(RS, Input, 1, [j \in 1..2 |-> 0])
  IN \* exactly one outcome per rule, in the order added, each carrying its rule; the call as a whole succeeds
     /\ run.ev.status = "done"
     /\ Len(outs) = Len(RS.rules)
     /\ \A i \in 1..Len(outs) : outs[i].rule = RS.rules[i].name
     \* every outcome equals the rule evaluated on its own with an empty cache: neighbours (failing or
     \* not) and the shared cache are invisible (the functions of this universe are deterministic)
     /\ \A i \in 1..Len(outs) : outs[i].o = DenAlone(RS, Input, 1, i, [j \in 1..2 |-> 0])
     \* the step machine refines the denotation, log included
     /\ outs = d.outcomes /\ run.gs.calls = d.st.calls
     /\ PrintT("CASE " \o ToJson([env |-> [funcs |-> RS.funcs, syms |-> RS.syms], rules |-> RS.rules,
                                  inputs |-> <<Input>>, schedule |-> <<[a |-> "run", e |-> 1]>>,
                                  x |-> <<outs>>, calls |-> run.gs.calls, key |-> "C09"]))
=============================================================================
