----------------------------- MODULE MC_BigInt -----------------------------
(* Self-check of BigInt against TLC's native integers and algebraic identities. *)
EXTENDS BigInt, TLC

Small == {0, 1, 2, 3, 7, 10, 32767, 32768, 32769, 46340, 65535, 65536, 1000000,
          1073741823, 1073709057, 536870912, 999999999}
Signed == Small \cup {-x : x \in Small}
Mul == {x \in Signed : x < 46341 /\ x > -46341}

NativeOK ==
  /\ \A a \in Signed : ZToInt(ZFromInt(a)) = a
  /\ \A a, b \in Signed : (a + b < 1073741824 /\ a + b > -1073741824) =>
                          ZAdd(ZFromInt(a), ZFromInt(b)) = ZFromInt(a + b)
  /\ \A a, b \in Signed : ZSub(ZFromInt(a), ZFromInt(b)) =
        (IF a - b < 1073741824 /\ a - b > -1073741824 THEN ZFromInt(a - b) ELSE ZSub(ZFromInt(a), ZFromInt(b)))
  /\ \A a, b \in Mul : ZMul(ZFromInt(a), ZFromInt(b)) = ZFromInt(a * b)
  /\ \A a, b \in Signed : ZCmp(ZFromInt(a), ZFromInt(b)) = (IF a < b THEN -1 ELSE IF a = b THEN 0 ELSE 1)
  /\ \A a \in Small, b \in Small \ {0} :
        /\ MDivMod(MFromNat(a), MFromNat(b)) = <<MFromNat(a \div b), MFromNat(a % b)>>
  /\ \A a \in Signed, b \in Signed \ {0} :
        LET q == ZDivT(ZFromInt(a), ZFromInt(b)) r == ZRemT(ZFromInt(a), ZFromInt(b)) IN
        /\ ZAdd(ZMul(q, ZFromInt(b)), r) = ZFromInt(a)
        /\ r.s = 0 \/ r.s = (IF a < 0 THEN -1 ELSE 1)
        /\ MCmp(r.m, MFromNat(IF b < 0 THEN -b ELSE b)) < 0
  /\ \A a \in Small : \A k \in {0, 1, 7, 14, 15, 16, 29, 30, 31, 45, 100} :
        /\ MShr(MShl(MFromNat(a), k), k) = MFromNat(a)
        /\ (a # 0 => MBitLen(MShl(MFromNat(a), k)) = NatBits(a) + k)
        /\ (a # 0 => MTz(MShl(MFromNat(a), k)) = NatTz(a) + k)
  /\ \A a \in Small : MFromDigits(MDigits(MFromNat(a))) = MFromNat(a)

Big == LET p127 == ZPow2(127) p96 == ZPow2(96) p64 == ZPow2(64) IN
       {ZSub(p127, ZOne), ZNeg(p127), p96, ZSub(p96, ZOne), p64, ZAdd(p64, ZOne), ZFromInt(12345),
        ZNeg(ZFromInt(7)), ZOne, ZFromDigits(<<7,9,2,2,8,1,6,2,5,1,4,2,6,4,3,3,7,5,9,3,5,4,3,9,5,0,3,3,5>>)}

BigOK ==
  /\ ZFromDigits(<<7,9,2,2,8,1,6,2,5,1,4,2,6,4,3,3,7,5,9,3,5,4,3,9,5,0,3,3,5>>) = ZSub(ZPow2(96), ZOne)
  /\ MDigits(MPow2(127)) = <<1,7,0,1,4,1,1,8,3,4,6,0,4,6,9,2,3,1,7,3,1,6,8,7,3,0,3,7,1,5,8,8,4,1,0,5,7,2,8>>
  /\ \A a, b \in Big :
        /\ ZAdd(a, b) = ZAdd(b, a)
        /\ ZSub(ZAdd(a, b), b) = a
        /\ ZMul(a, b) = ZMul(b, a)
        /\ ZDivT(ZMul(a, b), b) = a
        /\ ZRemT(ZMul(a, b), b) = ZZero
        /\ LET q == ZDivT(a, b) r == ZRemT(a, b) IN
             /\ ZAdd(ZMul(q, b), r) = a
             /\ MCmp(r.m, b.m) < 0
        /\ LET q == ZDivF(a, ZAbs(b)) r == ZModF(a, ZAbs(b)) IN
             /\ ZAdd(ZMul(q, ZAbs(b)), r) = a /\ r.s >= 0 /\ MCmp(r.m, b.m) < 0
        /\ ZBitOp("xor", ZBitOp("xor", a, b), b) = a
        /\ ZBitOp("and", a, a) = a /\ ZBitOp("or", a, a) = a
        /\ ZAdd(ZBitOp("and", a, b), ZBitOp("or", a, b)) = ZAdd(a, b)
  /\ ZBitOp("and", ZFromInt(-1), ZFromInt(12345)) = ZFromInt(12345)
  /\ ZBitOp("or", ZFromInt(-8), ZFromInt(3)) = ZFromInt(-5)
  /\ ZBitOp("xor", ZFromInt(-1), ZFromInt(5)) = ZFromInt(-6)
  /\ ZBitOp("and", ZFromInt(12), ZFromInt(10)) = ZFromInt(8)

ASSUME NativeOK
ASSUME BigOK
VARIABLE x
Init == x = 0
Next == x' = x
=============================================================================
