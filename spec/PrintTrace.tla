------------------------------ MODULE PrintTrace ------------------------------
(***************************************************************************)
(* Trace validation for C16 (implementation -> specification): every       *)
(* record is (tree, text) where text is what the code's Display printed    *)
(* for the tree.  The specification's lexer and grammar must read the text *)
(* back as exactly that tree.  One TLC state per record; records are       *)
(* walked in chunks so that workers share them.                            *)
(***************************************************************************)
EXTENDS Grammar, TLC, Json, IOUtils

Rec == ndJsonDeserialize(IOEnv.TRACE)
VARIABLE i
Chunk == 20
Init == i \in {1 + k * Chunk : k \in 0..((Len(Rec) - 1) \div Chunk)}
Next == i % Chunk # 0 /\ i < Len(Rec) /\ i' = i + 1
Accepted == LET r == ParseText(Rec[i].text) IN r.ok /\ r.t = Rec[i].tree
=============================================================================
