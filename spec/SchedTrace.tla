------------------------------ MODULE SchedTrace ------------------------------
(***************************************************************************)
(* Trace validation for whole scenarios recorded from the real code with   *)
(* seeded random rulesets and random poll schedules (C09, C11, C12):       *)
(*   [env, rules, inputs, schedule |-> <<event...>>, x, calls]             *)
(* event = [a |-> "start", e] | [a |-> "poll", e, ready, ncalls]           *)
(*       | [a |-> "drop", e]                                               *)
(* where `ready` / `ncalls` are what the code showed after that poll, x[e] *)
(* the outcomes of evaluation e if it completed, calls the global          *)
(* invocation log.  The events are consumed one by one by the actions of   *)
(* RuleSet.tla (Start / Poll / Drop); each poll's observation must be what  *)
(* the specification's Poll produces in that state.                        *)
(***************************************************************************)
EXTENDS RuleSet, TraceCommon, TLC, Json, IOUtils

Rec == ndJsonDeserialize(IOEnv.TRACE)
VARIABLE i
Chunk == 10
Init == i \in {1 + k * Chunk : k \in 0..((Len(Rec) - 1) \div Chunk)}
Next == i % Chunk # 0 /\ i < Len(Rec) /\ i' = i + 1

\* consume the schedule from event k in state (evals, gs); FALSE as soon as an observation disagrees
RECURSIVE Consume(_, _, _, _, _)
Consume(r, rs, k, evals, gs) ==
  IF k > Len(r.schedule) THEN
       /\ CallsMatch(gs.calls, r.calls)
       /\ \A e \in 1..Len(evals) : evals[e].status = "done" =>
             /\ Len(r.x[e]) = Len(evals[e].outcomes)
             /\ \A j \in 1..Len(r.x[e]) : r.x[e][j].rule = evals[e].outcomes[j].rule /\ ObsMatches(evals[e].outcomes[j].o, r.x[e][j].o)
  ELSE LET ev == r.schedule[k] IN
       CASE ev.a = "start" -> Consume(r, rs, k + 1, [evals EXCEPT ![ev.e] = StartEval(rs, r.inputs[ev.e])], gs)
         [] ev.a = "drop" -> Consume(r, rs, k + 1, [evals EXCEPT ![ev.e].status = "dropped"], gs)
         [] ev.a = "poll" ->
              LET p == PollEval(rs, evals[ev.e], gs, ev.e) IN
              /\ ev.ready = (p.ev.status = "done")
              /\ ev.ncalls = Len(p.gs.calls)
              /\ Consume(r, rs, k + 1, [evals EXCEPT ![ev.e] = p.ev], p.gs)

Idle == [status |-> "idle"]
Accepted ==
  LET r == Rec[i]
      rs == [rules |-> r.rules, funcs |-> r.env.funcs, syms |-> r.env.syms]
  IN Consume(r, rs, 1, [e \in 1..Len(r.inputs) |-> Idle], InitGs(rs))
=============================================================================
