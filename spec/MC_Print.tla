------------------------------- MODULE MC_Print -------------------------------
(***************************************************************************)
(* C16: printing a parsed expression gives text that parses back to it.    *)
(* Universe: trees in the parser's image - every node kind in every child  *)
(* position of every other node kind (depth 2), every literal leaf of the  *)
(* pool under every node kind, with literals written by their lexemes      *)
(* (the value of a leaf is Denote(lexeme)): integers at the 128-bit        *)
(* limits, floats incl. -0, subnormal and infinite (f1e999), decimals with *)
(* scale, strings containing quotes, backslashes, newlines, //, non-ASCII. *)
(* (M) the specification's printer round-trips on every tree;              *)
(* (G) the harness prints each tree with the code, re-parses it with the   *)
(*     code and compares; the printed texts are validated by PrintTrace.   *)
(***************************************************************************)
EXTENDS Printer, TLC, Json

CONSTANT Depth
VARIABLES t,      \* the tree
          lx,     \* the lexeme of its literal leaf (<<>> when the leaf is the reference `a`)
          d       \* number of wrappings so far
vars == <<t, lx, d>>

Q == <<34>>
LitLexemes == << S("i5"), S("i-5"), S("i0"), S("i170141183460469231731687303715884105727"),
                 S("i-170141183460469231731687303715884105728"),
                 S("f1.5"), S("f-0"), S("f1e300"), S("f5e-324"), S("f0.1"), S("f-2.5e-7"), S("f1e999"), S("f-1e999"),
                 S("d1.50"), S("d-0.5"), S("d0"), S("d0.00"), S("d79228162514264337593543950335"), S("d0.0000000000000000000000000001"),
                 S("true"), S("false"), S("none"),
                 Q \o S("s") \o Q, Q \o S("a\\\"b") \o Q, Q \o S("a\\\\") \o Q, Q \o S("\\\\") \o Q, Q \o S("a\\nb") \o Q,
                 Q \o S("\\t") \o Q, Q \o S("//x") \o Q, Q \o <<233, 20013, 128512>> \o Q, Q \o Q, Q \o S("a'b") \o Q,
                 Q \o S("\\\"") \o Q, Q \o S("a") \o <<10>> \o S("b") \o Q, Q \o S("\\u{0}") \o Q, Q \o S("x\\\\\\\"y") \o Q,
                 Q \o <<233, 92, 34, 20013, 92, 92>> \o Q, Q \o S("2015-07-30T03:26:13Z") \o Q, Q \o S("1.5") \o Q,
                 Q \o <<233, 92, 92, 110, 111>> \o Q, Q \o <<20013, 128512, 92, 92, 116, 92, 34>> \o Q,
                 \* carriage return and line feed, escaped and raw, together and apart
                 Q \o S("a\\r\\nb") \o Q, Q \o <<97, 13, 10, 98>> \o Q, Q \o S("\\r") \o Q, Q \o <<10, 13>> \o Q, Q \o S("\\n\\r\\n") \o Q,
                 \* a line of a string constant that looks like a comment line
                 Q \o S("see") \o <<10>> \o S("// note") \o <<10>> \o S("end") \o Q, Q \o S("a") \o <<10>> \o S("  //") \o Q >>
Leaf(lexeme) == Val(Denote(Lex(lexeme).toks[1]).v)
FoldLex == << S("f0"), S("f1e999"), S("f1.5"), S("i5"), S("d1.50"), S("f-0") >>

A == Ref(S("a"))
UnK == {"not", "neg", "some", "none", "int", "float", "dec", "datetime", "duration", "uppercase", "lowercase", "trim",
        "floor", "round", "fract", "year", "month", "week", "day", "hour", "minute", "second"}
BinK == {"and", "or", "eq", "neq", "gt", "lt", "gte", "lte", "add", "sub", "mult", "div", "rem", "bitand", "bitor", "bitxor", "contains"}

SibK == {"bitand", "bitor", "bitxor", "contains", "add", "and", "eq", "lt"}       \* (the bracket-less operators and one of each other family)
\* every node kind with x in every child position (the other children are the reference `a`)
Wraps(x) ==
  {Un(k, x) : k \in UnK}
  \cup {Bin(k, x, A) : k \in BinK} \cup {Bin(k, A, x) : k \in BinK}
  \* ... and with a sibling that is itself compound (its rendering begins or ends with a bracket)
  \cup {Bin(k, x, Call(S("fn"), A)) : k \in SibK} \cup {Bin(k, Idx(A, FieldI(S("k"))), x) : k \in SibK}
  \cup {VecE(<<x, Val(St("z"))>>), Bin("eq", x, Val(St("z"))), MapE(<< <<S("j"), x>>, <<S("k"), Val(St("z"))>> >>)}
  \cup {If(x, A, A), If(A, x, A), If(A, A, x), Call(S("fn"), x), Idx(x, FieldI(S("k"))), Idx(x, PosI(0)), Idx(x, PosI(12)), Idx(x, PosI(5)),
         Idx(x, FieldI(S("e5"))), Idx(x, FieldI(S("f"))),
         VecE(<<x>>), VecE(<<A, x>>), MapE(<< <<S("k"), x>> >>), MapE(<< <<S("j"), A>>, <<S("k"), x>> >>)}

\* besides `a`: references and symbols whose names are the prefixes of literal tokens (f, d, i, e, and a keyword-like
\* name): followed by a numeric index their rendering must not fuse into a number ("f" ".5")
Init == \/ /\ t \in {A, Sym(S("s")), VecE(<<>>), MapE(<<>>)} /\ lx = <<>> /\ d = 0
        \/ /\ t \in {Ref(S("f")), Ref(S("d")), Ref(S("i")), Ref(S("e")), Ref(S("x0")), Sym(S("f")), Sym(S("d")), Ref(S("inty")), Ref(S("f1e"))}
           /\ lx = <<>> /\ d = Depth - 1                     \* wrapped once
        \* operators written without brackets of their own whose operands' renderings begin and end with a bracket
        \/ /\ t \in {Bin(k, Idx(A, FieldI(S("k"))), Call(S("fn"), A)) : k \in {"bitand", "bitor", "bitxor", "contains"}}
                   \cup {Bin(k, If(A, A, A), Bin("add", A, A)) : k \in {"bitand", "bitor", "bitxor", "contains"}}
           /\ lx = <<>> /\ d = Depth - 1
        \/ \E i \in 1..Len(LitLexemes) : t = Leaf(LitLexemes[i]) /\ lx = LitLexemes[i] /\ d = 0
        \* an arithmetic node over two (equal) literals: nothing is computed when the text is read
        \/ \E i \in 1..Len(FoldLex), k \in {"div", "sub", "mult", "rem", "add"} :
              t = Bin(k, Leaf(FoldLex[i]), Leaf(FoldLex[i])) /\ lx = FoldLex[i] /\ d = 1
\* literal leaves are wrapped once; the reference leaf up to Depth times (the third level over a reduced set)
Next == /\ d < (IF lx # <<>> THEN 1 ELSE Depth)
        /\ (d = 2 => t.k \in {"bitand", "neg", "not", "index", "contains", "if", "add", "call", "vec"})
        /\ \E x \in Wraps(t) : t' = x
        /\ lx' = lx /\ d' = d + 1

LitFn == IF lx = <<>> THEN [v \in {} |-> <<>>] ELSE [v \in {Leaf(lx).v} |-> lx]
Text == PrintWith(t, LitFn)

\* the specification's rendering parses back to the same tree
PrintParses == LET r == ParseText(Text) IN r.ok /\ r.t = t
Emit == PrintT("CASE " \o ToJson([tree |-> t, key |-> "print"]))
=============================================================================
