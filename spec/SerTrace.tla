------------------------------- MODULE SerTrace -------------------------------
(***************************************************************************)
(* Trace validation for C13 and C17: seeded random terms of the serde data *)
(* model serialized by the real ValueSerializer, and seeded random         *)
(* conversions.  Records:                                                  *)
(*   [kind |-> "ser", term, x |-> observation]                              *)
(*   [kind |-> "conv", target, container, src, x |-> observation]           *)
(***************************************************************************)
EXTENDS Ser, Convert, TLC, Json, IOUtils

Rec == ndJsonDeserialize(IOEnv.TRACE)
VARIABLE i
Chunk == 50
Init == i \in {1 + k * Chunk : k \in 0..((Len(Rec) - 1) \div Chunk)}
Next == i % Chunk # 0 /\ i < Len(Rec) /\ i' = i + 1

Accepted ==
  LET r == Rec[i] IN
  /\ "ok" \in DOMAIN r.x
  /\ IF r.kind = "ser" THEN
          LET im == Image(r.term) IN
          IF im.ok THEN r.x.ok /\ r.x.v = im.v ELSE ~r.x.ok /\ r.x.variant = "ValueSerializationError"
     ELSE LET o == IF r.container = "" THEN ExtractScalar(r.target, r.src) ELSE ExtractContainer(r.container, r.target, r.src) IN
          IF o.ok THEN r.x.ok /\ r.x.v = r.src
          ELSE /\ ~r.x.ok
               /\ (o.e = "Overflow" => r.x.variant = "NumericOverflow")
               /\ (o.e = "WrongKind" => r.x.variant = "UnexpectedValueType" /\ r.x.p = o.p)
=============================================================================
