--------------------------------- MODULE Ops ---------------------------------
(***************************************************************************)
(* THE OPERATOR TABLE of the reval expression language.                    *)
(*                                                                         *)
(*   Unary(kind, v), Binary(kind, l, r), LazyBinary(kind, l, r),            *)
(*   IndexOp(v, idx), Cond(v)                                              *)
(* each return an outcome:                                                 *)
(*   [ok |-> TRUE, v |-> value]            a value                         *)
(*   [ok |-> TRUE, v |-> value, ap |-> a]  a value compared with the named *)
(*                                         tolerance (DESIGN 4.4)          *)
(*   [ok |-> FALSE, e |-> class]           an error of that class          *)
(*   [ok |-> FALSE, e |-> class, p |-> v]  ... carrying the offending value*)
(* Error classes: "Type" "Div" "Cast" "Bounds" "Range".                    *)
(*                                                                         *)
(* The table is written from the property statements (C01-C04), the        *)
(* documentation and the evident intent of the language, not from the      *)
(* code's arithmetic: results are computed on mathematical integers /      *)
(* exact rationals and then checked against the range of the result type,  *)
(* so a result outside its type's range is always an error here.           *)
(* Two declarative tables, Sig and NoneRule, restate the type discipline   *)
(* independently; MC_Ops checks the case analysis against them.            *)
(***************************************************************************)
EXTENDS Values

Ok(v) == [ok |-> TRUE, v |-> v]
OkA(v, a) == [ok |-> TRUE, v |-> v, ap |-> a]
Err(c) == [ok |-> FALSE, e |-> c]
ErrP(c, p) == [ok |-> FALSE, e |-> c, p |-> p]
TypeErr == Err("Type")
B2(b) == Ok(VBool(b))

UnaryKinds == <<"not", "neg", "some", "none", "int", "float", "dec", "datetime", "duration",
                "uppercase", "lowercase", "trim", "floor", "round", "fract",
                "year", "month", "week", "day", "hour", "minute", "second">>
StrictBinaryKinds == <<"mult", "div", "rem", "add", "sub", "gt", "gte", "lt", "lte",
                       "bitand", "bitor", "bitxor", "contains">>
LazyBinaryKinds == <<"eq", "neq", "and", "or">>

RangeInt(z) == IF IntInRange(z) THEN Ok(VInt(z)) ELSE Err("Range")
RangeDT(z) == IF DTInRange(z) THEN Ok(VDT(z)) ELSE Err("Range")
RangeDur(z) == IF DurInRange(z) THEN Ok(VDur(z)) ELSE Err("Range")
DecOut(r, errclass) == IF r.k = "overflow" THEN Err(errclass)
                       ELSE IF r.exact THEN Ok(VDec(r.n, r.sc)) ELSE OkA(VDec(r.n, r.sc), "dec1ulp")

----------------------------------------------------------------------------
(* string casts *)

Invalid == [k |-> "invalid"]
UnmodelledStr == [k |-> "unmodelled"]
HasSign(cs) == cs # <<>> /\ (cs[1] = 43 \/ cs[1] = 45)
Unsigned(cs) == IF HasSign(cs) THEN Tail(cs) ELSE cs
SignOf(cs) == IF cs # <<>> /\ cs[1] = 45 THEN -1 ELSE 1

\* int("..."):  [+-]?[0-9]+  within i128
ParseIntStr(cs) ==
  LET body == Unsigned(cs) IN
  IF ~AllDigits(body) THEN Invalid
  ELSE LET z == Z(SignOf(cs), MFromDigits(Digits(body))) IN
       IF IntInRange(z) THEN [k |-> "ok", z |-> z] ELSE Invalid

\* float("..."): the documented grammar of Rust's f64::from_str, case-insensitive:
\*   Sign? ( 'inf' | 'infinity' | 'nan' | Number ),  Number ::= (D+ | D+ '.' D* | D* '.' D+) ('e' Sign? D+)?
LowerAscii(cs) == [i \in 1..Len(cs) |-> IF cs[i] >= 65 /\ cs[i] <= 90 THEN cs[i] + 32 ELSE cs[i]]
IndexOfCP(cs, c) == IF \E i \in 1..Len(cs) : cs[i] = c THEN CHOOSE i \in 1..Len(cs) : cs[i] = c /\ \A j \in 1..(i-1) : cs[j] # c ELSE 0
AllDigitsOrEmpty(cs) == \A i \in 1..Len(cs) : IsDigit(cs[i])
ParseFloatStr(cs0) ==
  LET cs == LowerAscii(cs0)
      sgn == SignOf(cs)
      body == Unsigned(cs)
  IN IF body = S("inf") \/ body = S("infinity") THEN [k |-> "ok", f |-> FInf(sgn)]
     ELSE IF body = S("nan") THEN [k |-> "ok", f |-> FNaN]
     ELSE LET ei == IndexOfCP(body, 101)
              mant == IF ei = 0 THEN body ELSE SubSeq(body, 1, ei - 1)
              expo == IF ei = 0 THEN <<>> ELSE SubSeq(body, ei + 1, Len(body))
              di == IndexOfCP(mant, 46)
              ip == IF di = 0 THEN mant ELSE SubSeq(mant, 1, di - 1)
              fp == IF di = 0 THEN <<>> ELSE SubSeq(mant, di + 1, Len(mant))
              expOk == ei = 0 \/ AllDigits(Unsigned(expo))
              mantOk == AllDigitsOrEmpty(ip) /\ AllDigitsOrEmpty(fp) /\ (ip # <<>> \/ fp # <<>>)
          IN IF ~(expOk /\ mantOk) THEN Invalid
             ELSE [k |-> "ok", f |->
                  LET ex == IF ei = 0 THEN ZZero ELSE Z(SignOf(expo), MFromDigits(Digits(Unsigned(expo))))
                      m == MFromDigits(Digits(ip \o fp))
                      \* clamp absurd exponents: beyond +-400 (after the digits) the result is decided
                      k == ZSub(ex, ZFromInt(Len(fp)))
                  IN IF m = <<>> THEN FZero(sgn)
                     ELSE IF ZCmp(k, ZFromInt(400)) > 0 THEN FInf(sgn)
                     ELSE IF ZCmp(k, ZFromInt(-400 - Len(ip \o fp))) < 0 THEN FZero(sgn)
                     ELSE FFromDecimal(sgn, m, ZToInt(k))]

\* dec("..."): the library's reader (Decimal.tla, DecFromStr).  When that fails and the text contains e or E the
\* library tries a scientific-notation reader, which is not modelled.
ParseDecStr(cs) ==
  LET r == DecFromStr(cs) IN
  IF r.k = "invalid" /\ (\E i \in 1..Len(cs) : cs[i] = 101 \/ cs[i] = 69) THEN UnmodelledStr ELSE r

\* datetime("..."): the relaxed RFC 3339 reader of the date-time library, transcribed.
\*   [ws] [+-]YEAR [ws] - [ws] MONTH [ws] - [ws] DAY  (T | t | one space)  [ws] HOUR [ws] : [ws] MINUTE [ws] : [ws] SECOND
\*   [. DIGITS] [ws] ( UTC | Z | z | (+ | - | U+2212) HH [: and ws]* MM ) [ws]
\* A year without a sign has at most four digits, with a sign any number; the other fields one or two digits
\* (padding is not required); only the first nine digits of the fraction count; the offset's minutes are required.
\* Every way of failing (malformed, a field out of its range, a date that does not exist, an offset of a day or
\* more, an instant outside the range of the type) is the same cast error.
RECURSIVE SkipWS(_, _)
SkipWS(cs, p) == IF p <= Len(cs) /\ IsWS(cs[p]) THEN SkipWS(cs, p + 1) ELSE p
RECURSIVE DigitsEnd(_, _, _, _)          \* end of the run of digits at p, at most max of them (max = 0: any number)
DigitsEnd(cs, p, n, max) == IF p <= Len(cs) /\ IsDigit(cs[p]) /\ (max = 0 \/ n < max) THEN DigitsEnd(cs, p + 1, n + 1, max) ELSE p
NumAt(cs, p, max) == LET q == DigitsEnd(cs, p, 0, max) IN [ok |-> q > p, p |-> q, ds |-> Digits(SubSeq(cs, p, q - 1))]
RECURSIVE StripZeros(_)
StripZeros(ds) == IF ds # <<>> /\ ds[1] = 0 THEN StripZeros(Tail(ds)) ELSE ds
RECURSIVE SmallVal(_, _)                 \* value of at most nine decimal digits
SmallVal(ds, acc) == IF ds = <<>> THEN acc ELSE SmallVal(Tail(ds), acc * 10 + ds[1])
RECURSIVE P10(_)
P10(k) == IF k = 0 THEN 1 ELSE 10 * P10(k - 1)
LitAt(cs, p, c) == p <= Len(cs) /\ cs[p] = c
DigitAt(cs, p) == p <= Len(cs) /\ IsDigit(cs[p])
LowerA(c) == IF c >= 65 /\ c <= 90 THEN c + 32 ELSE c
RECURSIVE SkipColonWS(_, _)
SkipColonWS(cs, p) == IF p <= Len(cs) /\ (cs[p] = 58 \/ IsWS(cs[p])) THEN SkipColonWS(cs, p + 1) ELSE p
OffsetAt(cs, p) ==
  IF p + 2 <= Len(cs) /\ <<LowerA(cs[p]), LowerA(cs[p + 1]), LowerA(cs[p + 2])>> = S("utc") THEN [ok |-> TRUE, p |-> p + 3, secs |-> 0]
  ELSE IF LitAt(cs, p, 90) \/ LitAt(cs, p, 122) THEN [ok |-> TRUE, p |-> p + 1, secs |-> 0]
  ELSE IF ~(p <= Len(cs) /\ cs[p] \in {43, 45, 8722}) THEN [ok |-> FALSE]
  ELSE IF ~(DigitAt(cs, p + 1) /\ DigitAt(cs, p + 2)) THEN [ok |-> FALSE]
  ELSE LET q == SkipColonWS(cs, p + 3) IN
       IF ~(DigitAt(cs, q) /\ DigitAt(cs, q + 1) /\ cs[q] <= 53) THEN [ok |-> FALSE]
       ELSE [ok |-> TRUE, p |-> q + 2,
             secs |-> (IF cs[p] = 43 THEN 1 ELSE -1) * (((cs[p + 1] - 48) * 10 + (cs[p + 2] - 48)) * 3600 + ((cs[q] - 48) * 10 + (cs[q + 1] - 48)) * 60)]
IsLeapYear(y) == (y % 4 = 0 /\ y % 100 # 0) \/ y % 400 = 0
DaysInMonth(y, m) == IF m = 2 THEN (IF IsLeapYear(y) THEN 29 ELSE 28) ELSE IF m \in {4, 6, 9, 11} THEN 30 ELSE 31
ParseDateStr(cs) ==
  LET p0 == SkipWS(cs, 1)
      sgn == IF LitAt(cs, p0, 45) THEN -1 ELSE IF LitAt(cs, p0, 43) THEN 1 ELSE 0
      yr == NumAt(cs, IF sgn = 0 THEN p0 ELSE p0 + 1, IF sgn = 0 THEN 4 ELSE 0)
  IN IF ~yr.ok \/ Len(StripZeros(yr.ds)) > 6 THEN Invalid ELSE
  LET year == (IF sgn = -1 THEN -1 ELSE 1) * SmallVal(StripZeros(yr.ds), 0)
      p1 == SkipWS(cs, yr.p)
      mo == NumAt(cs, SkipWS(cs, p1 + 1), 2)
  IN IF ~LitAt(cs, p1, 45) \/ ~mo.ok THEN Invalid ELSE
  LET p2 == SkipWS(cs, mo.p)
      dy == NumAt(cs, SkipWS(cs, p2 + 1), 2)
  IN IF ~LitAt(cs, p2, 45) \/ ~dy.ok THEN Invalid
     ELSE IF ~(dy.p <= Len(cs) /\ cs[dy.p] \in {84, 116, 32}) THEN Invalid ELSE      \* T, t or ONE space
  LET hr == NumAt(cs, SkipWS(cs, dy.p + 1), 2)
  IN IF ~hr.ok THEN Invalid ELSE
  LET p3 == SkipWS(cs, hr.p)
      mi == NumAt(cs, SkipWS(cs, p3 + 1), 2)
  IN IF ~LitAt(cs, p3, 58) \/ ~mi.ok THEN Invalid ELSE
  LET p4 == SkipWS(cs, mi.p)
      se == NumAt(cs, SkipWS(cs, p4 + 1), 2)
  IN IF ~LitAt(cs, p4, 58) \/ ~se.ok THEN Invalid ELSE
  LET hasfrac == LitAt(cs, se.p, 46)
      fr == IF hasfrac THEN NumAt(cs, se.p + 1, 9) ELSE [ok |-> TRUE, p |-> se.p, ds |-> <<>>]
  IN IF ~fr.ok THEN Invalid ELSE
  LET nanos == SmallVal(fr.ds, 0) * P10(9 - Len(fr.ds))
      p5 == SkipWS(cs, IF hasfrac THEN DigitsEnd(cs, fr.p, 0, 0) ELSE fr.p)       \* digits beyond the ninth are skipped
      off == OffsetAt(cs, p5)
  IN IF ~off.ok THEN Invalid
     ELSE IF SkipWS(cs, off.p) # Len(cs) + 1 THEN Invalid                          \* nothing but white space may follow
     ELSE LET month == SmallVal(mo.ds, 0) day == SmallVal(dy.ds, 0)
              hour == SmallVal(hr.ds, 0) minute == SmallVal(mi.ds, 0) second == SmallVal(se.ds, 0)
          IN IF month < 1 \/ month > 12 \/ day < 1 \/ hour > 23 \/ minute > 59 \/ second > 60 THEN Invalid
             ELSE IF year < -262143 \/ year > 262142 \/ day > DaysInMonth(year, month) THEN Invalid
             ELSE IF off.secs > 86399 \/ off.secs < -86399 THEN Invalid
             ELSE IF second = 60 THEN UnmodelledStr          \* a leap second: representable, outside the model of instants
             ELSE LET z == ZSub(Instant(year, month, day, hour, minute, second, ZFromInt(nanos)), ZMul(ZFromInt(off.secs), NsPerSec))
                  IN IF DTInRange(z) THEN [k |-> "ok", z |-> z] ELSE Invalid

Unmodelled == [ok |-> TRUE, v |-> VNone, ap |-> "unmodelled"]
IsUnmodelled(o) == "ap" \in DOMAIN o /\ o.ap = "unmodelled"

----------------------------------------------------------------------------
(* unary operators and built-ins *)

\* exact m/10^sc == the double r ?
FloatIsExactlyDec(r, n, sc) ==
  IF n.s = 0 THEN TRUE
  ELSE IF r.c # "fin" \/ r.m = <<>> THEN FALSE
  ELSE IF r.e >= 0 THEN MMul(MShl(r.m, r.e), MPow10(sc)) = n.m
  ELSE MMul(r.m, MPow10(sc)) = MShl(n.m, -r.e)

TimeUnit(kind, v) == \* week/day/hour/minute/second on Int (constructor) and Dur (extractor)
  IF v.t = "Int" THEN LET ns == ZMul(v.n, UnitNs(kind)) IN
                      IF DurInRange(ns) THEN Ok(VDur(ns)) ELSE ErrP("Bounds", v)
  ELSE Ok(VInt(DurUnits(v.n, kind)))

Unary(kind, v) ==
  IF kind = "some" THEN B2(v.t # "None")
  ELSE IF kind = "none" THEN B2(v.t = "None")
  ELSE IF v.t = "None" THEN Ok(VNone)
  ELSE CASE kind = "not" -> IF v.t = "Bool" THEN B2(~v.b) ELSE TypeErr
    [] kind = "neg" ->
         CASE v.t = "Int" -> RangeInt(ZNeg(v.n))
           [] v.t = "Float" -> Ok(VFloat(FNeg(v.f)))
           [] v.t = "Dec" -> Ok(VDec(ZNeg(v.n), v.sc))
           [] OTHER -> TypeErr
    [] kind = "int" ->
         CASE v.t = "Int" -> Ok(v)
           [] v.t = "Float" -> IF v.f.c # "fin" THEN ErrP("Cast", v)
                               ELSE LET z == FTruncZ(v.f) IN
                                    IF IntInRange(z) THEN Ok(VInt(z)) ELSE ErrP("Cast", v)
           [] v.t = "Dec" -> Ok(VInt(DTruncZ(v.n, v.sc)))
           [] v.t = "Str" -> LET z == ParseIntStr(v.cs) IN
                             IF z.k = "invalid" THEN ErrP("Cast", v) ELSE Ok(VInt(z.z))
           [] OTHER -> TypeErr
    [] kind = "float" ->
         CASE v.t = "Int" -> Ok(VFloat(FFromZ(v.n)))
           [] v.t = "Float" -> Ok(v)
           [] v.t = "Dec" -> LET r == FFromDecimal(IF v.n.s < 0 THEN -1 ELSE 1, v.n.m, -v.sc) IN
                             \* (a zero mantissa may carry a sign in the Decimal representation, which decides the sign of
                             \* the float zero: not prescribed, so nothing computed from it is compared)
                             IF v.n.s # 0 /\ FloatIsExactlyDec(r, v.n, v.sc) THEN Ok(VFloat(r)) ELSE OkA(VFloat(r), "f1ulp")
           [] v.t = "Str" -> LET f == ParseFloatStr(v.cs) IN
                             IF f.k = "invalid" THEN ErrP("Cast", v) ELSE Ok(VFloat(f.f))
           [] OTHER -> TypeErr
    [] kind = "dec" ->
         CASE v.t = "Int" -> IF DFits(v.n.m) THEN Ok(VDec(v.n, 0)) ELSE ErrP("Cast", v)
           [] v.t = "Float" ->
                IF v.f.c # "fin" THEN ErrP("Cast", v)
                ELSE IF v.f.m = <<>> THEN Ok(VDec(ZZero, 0))
                ELSE \* the library's conversion, transcribed step by step (Decimal.tla, Base2ToDecimal).  It keeps about 15
                     \* significant digits: where its result IS the float's exact value (every whole number below 2^96, every
                     \* short binary fraction) that value is prescribed; elsewhere the result is one of many defensible
                     \* decimals near the float and is compared within 15 significant digits (below 2^-100: with zero)
                     LET L == MBitLen(v.f.m)
                         normal == L + v.f.e - 1 >= -1022
                         M == IF normal THEN MShl(v.f.m, 53 - L) ELSE MShl(v.f.m, v.f.e + 1074)
                         E2 == IF normal THEN v.f.e - (53 - L) ELSE -1074
                         r == Base2ToDecimal(M, E2)
                     IN IF r.k = "none" THEN ErrP("Cast", v)
                        ELSE LET d == VDec(Z(v.f.s, r.m), r.sc) IN
                             IF r.m # <<>> /\ FloatIsExactlyDec(v.f, d.n, d.sc) THEN Ok(d)
                             ELSE IF L + v.f.e < -100 THEN OkA(d, "decTiny") ELSE OkA(d, "dec15")
           [] v.t = "Dec" -> Ok(v)
           [] v.t = "Str" -> LET d == ParseDecStr(v.cs) IN
                             IF d.k = "invalid" THEN ErrP("Cast", v)
                             ELSE IF d.k = "unmodelled" THEN Unmodelled
                             ELSE IF d.exact THEN Ok(VDec(d.n, d.sc)) ELSE OkA(VDec(d.n, d.sc), "dec1ulp")
           [] OTHER -> TypeErr
    [] kind = "datetime" ->
         CASE v.t = "Str" -> LET d == ParseDateStr(v.cs) IN
                             IF d.k = "invalid" THEN ErrP("Cast", v)
                             ELSE IF d.k = "unmodelled" THEN Unmodelled ELSE Ok(VDT(d.z))
           [] v.t = "Int" -> IF SecInDTRange(v.n) THEN Ok(VDT(ZMul(v.n, NsPerSec))) ELSE ErrP("Cast", v)
           [] v.t = "DT" -> Ok(v)
           [] OTHER -> TypeErr
    [] kind = "duration" ->
         CASE v.t = "Int" -> LET ns == ZMul(v.n, NsPerSec) IN
                             IF DurInRange(ns) THEN Ok(VDur(ns)) ELSE ErrP("Cast", v)
           [] v.t = "Dur" -> Ok(v)
           [] OTHER -> TypeErr
    [] kind = "uppercase" -> IF v.t = "Str" THEN Ok(VStr(Upper(v.cs))) ELSE TypeErr
    [] kind = "lowercase" -> IF v.t = "Str" THEN Ok(VStr(Lower(v.cs))) ELSE TypeErr
    [] kind = "trim" -> IF v.t = "Str" THEN Ok(VStr(Trim(v.cs))) ELSE TypeErr
    [] kind = "floor" ->
         CASE v.t = "Float" -> Ok(VFloat(FFloor(v.f)))
           [] v.t = "Dec" -> Ok(VDec(DFloorZ(v.n, v.sc), 0))
           [] OTHER -> TypeErr
    [] kind = "round" ->
         CASE v.t = "Float" -> Ok(VFloat(FRoundHalfAway(v.f)))
           [] v.t = "Dec" -> Ok(VDec(DRoundEvenZ(v.n, v.sc), 0))
           [] OTHER -> TypeErr
    [] kind = "fract" ->
         CASE v.t = "Float" -> Ok(VFloat(FFract(v.f)))
           [] v.t = "Dec" -> Ok(VDec(DFractZ(v.n, v.sc), v.sc))
           [] OTHER -> TypeErr
    [] kind \in {"year", "month"} -> IF v.t = "DT" THEN Ok(I(DTField(v.n, kind))) ELSE TypeErr
    [] kind = "week" -> IF v.t \in {"Int", "Dur"} THEN TimeUnit(kind, v) ELSE TypeErr
    [] kind \in {"day", "hour", "minute", "second"} ->
         CASE v.t \in {"Int", "Dur"} -> TimeUnit(kind, v)
           [] v.t = "DT" -> Ok(I(DTField(v.n, kind)))
           [] OTHER -> TypeErr

----------------------------------------------------------------------------
(* strict binary operators *)

CmpResult(kind, c) == \* c in -1,0,1
  CASE kind = "gt" -> c > 0 [] kind = "gte" -> c >= 0 [] kind = "lt" -> c < 0 [] kind = "lte" -> c <= 0
FCmpResult(kind, c) == \* c in "lt","eq","gt","un"
  CASE kind = "gt" -> c = "gt" [] kind = "gte" -> c \in {"gt", "eq"}
    [] kind = "lt" -> c = "lt" [] kind = "lte" -> c \in {"lt", "eq"}

BitKindOp(kind) == CASE kind = "bitand" -> "and" [] kind = "bitor" -> "or" [] kind = "bitxor" -> "xor"

Binary(kind, l, r) ==
  IF kind = "contains" THEN
     CASE l.t = "None" -> B2(FALSE)
       [] l.t = "Vec" -> B2(\E i \in 1..Len(l.xs) : ValEq(l.xs[i], r))
       [] l.t = "Map" /\ r.t = "Str" -> B2(MapHas(l.kv, r.cs))
       [] l.t = "Str" /\ r.t = "Str" -> B2(IsSub(r.cs, l.cs))
       [] l.t = "Int" /\ r.t = "Int" -> B2(ZBitOp("and", l.n, r.n).s # 0)
       [] OTHER -> TypeErr
  ELSE IF l.t = "None" \/ r.t = "None" THEN
     (IF kind \in {"gt", "gte", "lt", "lte"} THEN B2(FALSE) ELSE Ok(VNone))
  ELSE CASE kind = "mult" ->
         CASE l.t = "Int" /\ r.t = "Int" -> RangeInt(ZMul(l.n, r.n))
           [] l.t = "Float" /\ r.t = "Float" -> Ok(VFloat(FMul(l.f, r.f)))
           [] l.t = "Dec" /\ r.t = "Dec" -> DecOut(DMul(l.n, l.sc, r.n, r.sc), "Range")
           [] OTHER -> TypeErr
    [] kind = "div" ->
         CASE l.t = "Int" /\ r.t = "Int" ->
                IF r.n.s = 0 THEN Err("Div")
                ELSE LET q == ZDivT(l.n, r.n) IN IF IntInRange(q) THEN Ok(VInt(q)) ELSE Err("Div")
           [] l.t = "Float" /\ r.t = "Float" -> Ok(VFloat(FDiv(l.f, r.f)))
           [] l.t = "Dec" /\ r.t = "Dec" ->
                IF r.n.s = 0 THEN Err("Div") ELSE DecOut(DDiv(l.n, l.sc, r.n, r.sc), "Div")
           [] OTHER -> TypeErr
    [] kind = "rem" ->
         CASE l.t = "Int" /\ r.t = "Int" ->
                IF r.n.s = 0 THEN Err("Div")
                ELSE IF ~IntInRange(ZDivT(l.n, r.n))           \* MIN % -1: quotient unrepresentable
                     THEN [ok |-> FALSE, e |-> "Div", alt |-> Ok(I(0))]
                ELSE Ok(VInt(ZRemT(l.n, r.n)))
           [] l.t = "Float" /\ r.t = "Float" -> Ok(VFloat(FRem(l.f, r.f)))
           [] l.t = "Dec" /\ r.t = "Dec" ->
                IF r.n.s = 0 THEN Err("Div") ELSE DecOut(DRem(l.n, l.sc, r.n, r.sc), "Div")
           [] OTHER -> TypeErr
    [] kind = "add" ->
         CASE l.t = "Int" /\ r.t = "Int" -> RangeInt(ZAdd(l.n, r.n))
           [] l.t = "Float" /\ r.t = "Float" -> Ok(VFloat(FAdd(l.f, r.f)))
           [] l.t = "Dec" /\ r.t = "Dec" -> DecOut(DAdd(l.n, l.sc, r.n, r.sc), "Range")
           [] l.t = "DT" /\ r.t = "Dur" -> RangeDT(ZAdd(l.n, r.n))
           [] OTHER -> TypeErr
    [] kind = "sub" ->
         CASE l.t = "Int" /\ r.t = "Int" -> RangeInt(ZSub(l.n, r.n))
           [] l.t = "Float" /\ r.t = "Float" -> Ok(VFloat(FSub(l.f, r.f)))
           [] l.t = "Dec" /\ r.t = "Dec" -> DecOut(DSub(l.n, l.sc, r.n, r.sc), "Range")
           [] l.t = "DT" /\ r.t = "DT" -> RangeDur(ZSub(l.n, r.n))
           [] l.t = "DT" /\ r.t = "Dur" -> RangeDT(ZSub(l.n, r.n))
           [] l.t = "Dur" /\ r.t = "Dur" -> RangeDur(ZSub(l.n, r.n))
           [] OTHER -> TypeErr
    [] kind \in {"gt", "gte", "lt", "lte"} ->
         CASE l.t = "Int" /\ r.t = "Int" -> B2(CmpResult(kind, ZCmp(l.n, r.n)))
           [] l.t = "Float" /\ r.t = "Float" -> B2(FCmpResult(kind, FCmp(l.f, r.f)))
           [] l.t = "Dec" /\ r.t = "Dec" -> B2(CmpResult(kind, DCmp(l.n, l.sc, r.n, r.sc)))
           [] l.t = "DT" /\ r.t = "DT" -> B2(CmpResult(kind, ZCmp(l.n, r.n)))
           [] l.t = "Dur" /\ r.t = "Dur" -> B2(CmpResult(kind, ZCmp(l.n, r.n)))
           [] OTHER -> TypeErr
    [] kind \in {"bitand", "bitor", "bitxor"} ->
         CASE l.t = "Int" /\ r.t = "Int" -> Ok(VInt(ZBitOp(BitKindOp(kind), l.n, r.n)))
           [] l.t = "Bool" /\ r.t = "Bool" ->
                B2(CASE kind = "bitand" -> l.b /\ r.b [] kind = "bitor" -> l.b \/ r.b
                     [] kind = "bitxor" -> l.b # r.b)
           [] OTHER -> TypeErr

----------------------------------------------------------------------------
(* lazy binary operators, given the values both operands would produce.    *)
(* `rneeded` tells whether the right operand is evaluated at all.          *)

RightNeeded(kind, l) ==
  CASE kind \in {"eq", "neq"} -> l.t # "None"
    [] kind = "and" -> l.t = "Bool" /\ l.b
    [] kind = "or" -> l.t = "Bool" /\ ~l.b

\* the outcome after the left value alone, when the right operand is not needed
LeftDecides(kind, l) ==
  CASE kind = "eq" -> B2(FALSE)              \* nothing equals None, not even None
    [] kind = "neq" -> B2(TRUE)
    [] kind \in {"and", "or"} -> IF l.t # "Bool" THEN TypeErr ELSE B2(l.b)

\* the outcome once the right value is known
WithRight(kind, l, r) ==
  CASE kind = "eq" -> B2(ValEq(l, r))
    [] kind = "neq" -> B2(~ValEq(l, r))
    [] kind \in {"and", "or"} -> IF r.t # "Bool" THEN TypeErr ELSE B2(r.b)

LazyBinary(kind, l, r) == IF RightNeeded(kind, l) THEN WithRight(kind, l, r) ELSE LeftDecides(kind, l)

----------------------------------------------------------------------------
(* indexing and conditions *)

\* idx = [k |-> "f", name |-> code points]  or  [k |-> "i", i |-> natural]
IndexOp(v, idx) ==
  CASE v.t = "None" -> Ok(VNone)
    [] v.t = "Map" /\ idx.k = "f" -> Ok(MapGet(v.kv, idx.name))
    [] v.t = "Vec" /\ idx.k = "i" -> Ok(IF idx.i + 1 <= Len(v.xs) THEN v.xs[idx.i + 1] ELSE VNone)
    [] OTHER -> TypeErr

\* the condition of `if`
Cond(v) == IF v.t = "Bool" THEN Ok(v) ELSE TypeErr

----------------------------------------------------------------------------
(* Declarative restatement 1: the signature table.  Sig(kind) is the set of *)
(* supported tuples of NON-None operand types with the result type ("same"  *)
(* for container element / operand passthrough is spelled out).             *)

USig(kind) == \* unary: set of <<operand type, result type>>
  CASE kind = "not" -> {<<"Bool", "Bool">>}
    [] kind = "neg" -> {<<"Int", "Int">>, <<"Float", "Float">>, <<"Dec", "Dec">>}
    [] kind \in {"some", "none"} -> {<<t, "Bool">> : t \in {"Bool", "Int", "Float", "Dec", "Str", "DT", "Dur", "Vec", "Map"}}
    [] kind = "int" -> {<<t, "Int">> : t \in {"Int", "Float", "Dec", "Str"}}
    [] kind = "float" -> {<<t, "Float">> : t \in {"Int", "Float", "Dec", "Str"}}
    [] kind = "dec" -> {<<t, "Dec">> : t \in {"Int", "Float", "Dec", "Str"}}
    [] kind = "datetime" -> {<<t, "DT">> : t \in {"Str", "Int", "DT"}}
    [] kind = "duration" -> {<<t, "Dur">> : t \in {"Int", "Dur"}}
    [] kind \in {"uppercase", "lowercase", "trim"} -> {<<"Str", "Str">>}
    [] kind \in {"floor", "round", "fract"} -> {<<"Float", "Float">>, <<"Dec", "Dec">>}
    [] kind \in {"year", "month"} -> {<<"DT", "Int">>}
    [] kind = "week" -> {<<"Int", "Dur">>, <<"Dur", "Int">>}
    [] kind \in {"day", "hour", "minute", "second"} -> {<<"Int", "Dur">>, <<"DT", "Int">>, <<"Dur", "Int">>}

NonNone == {"Bool", "Int", "Float", "Dec", "Str", "DT", "Dur", "Vec", "Map"}
BSig(kind) == \* strict binary: set of <<left type, right type, result type>>
  CASE kind \in {"mult", "div", "rem"} -> {<<t, t, t>> : t \in {"Int", "Float", "Dec"}}
    [] kind = "add" -> {<<t, t, t>> : t \in {"Int", "Float", "Dec"}} \cup {<<"DT", "Dur", "DT">>}
    [] kind = "sub" -> {<<t, t, t>> : t \in {"Int", "Float", "Dec"}}
                        \cup {<<"DT", "DT", "Dur">>, <<"DT", "Dur", "DT">>, <<"Dur", "Dur", "Dur">>}
    [] kind \in {"gt", "gte", "lt", "lte"} -> {<<t, t, "Bool">> : t \in {"Int", "Float", "Dec", "DT", "Dur"}}
    [] kind \in {"bitand", "bitor", "bitxor"} -> {<<"Int", "Int", "Int">>, <<"Bool", "Bool", "Bool">>}
    [] kind = "contains" -> {<<"Map", "Str", "Bool">>, <<"Str", "Str", "Bool">>, <<"Int", "Int", "Bool">>}
                             \cup {<<"Vec", t, "Bool">> : t \in NonNone}

(* Declarative restatement 2: what a None operand yields (C04).            *)
UNoneRule(kind) == CASE kind = "some" -> VBool(FALSE) [] kind = "none" -> VBool(TRUE) [] OTHER -> VNone
\* strict binary, None on the left / on the right (other operand o): a value, or "ordinary" when the
\* collection's ordinary rule applies (membership of a None item)
BNoneLeft(kind) == IF kind \in {"gt", "gte", "lt", "lte", "contains"} THEN VBool(FALSE) ELSE VNone
BNoneRightOrdinary(kind) == kind = "contains"
BNoneRight(kind) == IF kind \in {"gt", "gte", "lt", "lte"} THEN VBool(FALSE) ELSE VNone   \* kind # "contains"
=============================================================================
