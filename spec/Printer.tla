------------------------------- MODULE Printer -------------------------------
(***************************************************************************)
(* Display of an expression as rule text (C16).  The rendering is fully    *)
(* parenthesised: every composite node prints either as an atom of the     *)
(* grammar (call, list, map, built-in function application) or inside its  *)
(* own parentheses, so that it can stand in any child position; string     *)
(* literals escape the quote and the backslash.  Numbers are spelled by a  *)
(* parameter LitText (any spelling that denotes the value is a correct     *)
(* rendering: number spelling is not part of the property).                *)
(***************************************************************************)
EXTENDS Grammar

RECURSIVE EscapeStr(_)
EscapeStr(cs) == IF cs = <<>> THEN <<>>
                 ELSE (IF cs[1] = 34 \/ cs[1] = 92 THEN <<92, cs[1]>> ELSE <<cs[1]>>) \o EscapeStr(Tail(cs))
StrText(cs) == <<34>> \o EscapeStr(cs) \o <<34>>

BinText(k) == CASE k = "and" -> S("and") [] k = "or" -> S("or") [] k = "eq" -> S("==") [] k = "neq" -> S("!=")
                [] k = "gt" -> S(">") [] k = "lt" -> S("<") [] k = "gte" -> S(">=") [] k = "lte" -> S("<=")
                [] k = "add" -> S("+") [] k = "sub" -> S("-") [] k = "mult" -> S("*") [] k = "div" -> S("/")
                [] k = "rem" -> S("%") [] k = "bitand" -> S("&") [] k = "bitor" -> S("|") [] k = "bitxor" -> S("^")
                [] k = "contains" -> S("contains")
IsBinKind(k) == k \in {"and", "or", "eq", "neq", "gt", "lt", "gte", "lte", "add", "sub", "mult", "div", "rem",
                       "bitand", "bitor", "bitxor", "contains"}
FuncText(k) == CASE k = "some" -> S("some") [] k = "none" -> S("none") [] k = "int" -> S("int") [] k = "float" -> S("float")
                 [] k = "dec" -> S("dec") [] k = "datetime" -> S("datetime") [] k = "duration" -> S("duration")
                 [] k = "uppercase" -> S("uppercase") [] k = "lowercase" -> S("lowercase") [] k = "trim" -> S("trim")
                 [] k = "round" -> S("round") [] k = "floor" -> S("floor") [] k = "fract" -> S("fract")
                 [] k = "year" -> S("year") [] k = "month" -> S("month") [] k = "week" -> S("week") [] k = "day" -> S("day")
                 [] k = "hour" -> S("hour") [] k = "minute" -> S("minute") [] k = "second" -> S("second")

RECURSIVE NatText(_)
NatText(n) == IF n < 10 THEN <<48 + n>> ELSE NatText(n \div 10) \o <<48 + (n % 10)>>
Numeral10(m) == LET ds == MDigits(m) IN [j \in 1..Len(ds) |-> 48 + ds[j]]
IndexText(i) == IF i.k = "f" THEN i.name ELSE IF i.k = "i" THEN NatText(i.i) ELSE Numeral10(i.big)

RECURSIVE PrintWith(_, _), PrintList(_, _, _), PrintMap(_, _, _)
PrintWith(e, LitText) ==
  CASE e.k = "val" -> IF e.v.t = "Str" THEN StrText(e.v.cs)
                      ELSE IF e.v.t = "Bool" THEN (IF e.v.b THEN S("true") ELSE S("false"))
                      ELSE IF e.v.t = "None" THEN S("none") ELSE LitText[e.v]
    [] e.k = "ref" -> e.n
    [] e.k = "sym" -> <<58>> \o e.n
    [] e.k = "call" -> e.n \o S("(") \o PrintWith(e.a[1], LitText) \o S(")")
    \* a blank before the dot: a numeric literal target must not fuse with a numeric index ("f-0" ".0")
    [] e.k = "index" -> S("(") \o PrintWith(e.a[1], LitText) \o S(" .") \o IndexText(e.i) \o S(")")
    [] e.k = "if" -> S("(if ") \o PrintWith(e.a[1], LitText) \o S(" then ") \o PrintWith(e.a[2], LitText)
                     \o S(" else ") \o PrintWith(e.a[3], LitText) \o S(")")
    [] e.k = "vec" -> S("[") \o PrintList(e.a, 1, LitText) \o S("]")
    [] e.k = "map" -> S("{") \o PrintMap(e.kv, 1, LitText) \o S("}")
    [] e.k = "not" -> S("(!") \o PrintWith(e.a[1], LitText) \o S(")")
    [] e.k = "neg" -> S("(-") \o PrintWith(e.a[1], LitText) \o S(")")
    [] IsBinKind(e.k) -> S("(") \o PrintWith(e.a[1], LitText) \o <<32>> \o BinText(e.k) \o <<32>>
                         \o PrintWith(e.a[2], LitText) \o S(")")
    [] OTHER -> FuncText(e.k) \o S("(") \o PrintWith(e.a[1], LitText) \o S(")")
PrintList(es, i, LitText) == IF i > Len(es) THEN <<>>
                                ELSE (IF i = 1 THEN <<>> ELSE S(", ")) \o PrintWith(es[i], LitText) \o PrintList(es, i + 1, LitText)
PrintMap(kv, i, LitText) == IF i > Len(kv) THEN <<>>
                               ELSE (IF i = 1 THEN <<>> ELSE S(", ")) \o kv[i][1] \o S(": ") \o PrintWith(kv[i][2], LitText)
                                    \o PrintMap(kv, i + 1, LitText)
=============================================================================
