------------------------------- MODULE RuleSet -------------------------------
(***************************************************************************)
(* Builder, ruleset and evaluations as a state machine.                    *)
(*                                                                         *)
(*   b      the builder: accepted rules (in order), functions, symbols     *)
(*   rs     the built ruleset (immutable after Build)                      *)
(*   evals  one record per evaluation started: its input, the index of the *)
(*          rule being evaluated, the step machine of that rule, ITS OWN   *)
(*          function cache (created empty by Start - nothing is shared     *)
(*          between evaluations or kept in rs), the outcomes so far and a  *)
(*          status  "run" | "done" | "dropped"                             *)
(*   gs     what lives outside the library: the user functions' own        *)
(*          invocation counters and the global invocation log              *)
(*                                                                         *)
(* Operators here are pure (state -> state); the MC_* modules wrap them    *)
(* into actions over their bounded universes.                              *)
(***************************************************************************)
EXTENDS Eval

\* ---- builder (C15) -----------------------------------------------------------
\* rules are [name, expr]; functions are the fn records of Eval.tla

Reserved == { S("and"), S("or"), S("if"), S("then"), S("else"), S("is_some"), S("is_none"), S("some"), S("int"),
              S("float"), S("dec"), S("true"), S("false"), S("none"), S("contains"), S("in"), S("to_upper"),
              S("to_lower"), S("uppercase"), S("lowercase"), S("starts"), S("ends"), S("trim"), S("round"),
              S("floor"), S("fract"), S("date_time"), S("datetime"), S("duration"), S("year"), S("month"),
              S("week"), S("day"), S("hour"), S("minute"), S("second"), S("key"), S("val") }

\* identifier well-formedness over the modelled alphabet: XID_Start / XID_Continue by explicit table
IsAsciiLetter(c) == (c >= 65 /\ c <= 90) \/ (c >= 97 /\ c <= 122)
XidStartModelled == {233, 201, 223, 20013}                     \* e-acute, E-acute, sharp s, CJK U+4E2D
XidContinueOnly == {183, 1633, 768}                             \* middle dot, Arabic-Indic digit one, combining grave
IsXidStart(c) == IsAsciiLetter(c) \/ c \in XidStartModelled
IsXidContinue(c) == IsXidStart(c) \/ IsDigit(c) \/ c = 95 \/ c \in XidContinueOnly
NameModelled(cs) == \A i \in 1..Len(cs) : cs[i] < 128 \/ cs[i] \in XidStartModelled \/ cs[i] \in XidContinueOnly \/ cs[i] \in {128512, 160}
WellFormed(cs) == /\ cs # <<>>
                  /\ (cs[1] = 95 \/ IsXidStart(cs[1]))
                  /\ \A i \in 2..Len(cs) : IsXidContinue(cs[i])

EmptyBuilder == [rules |-> <<>>, funcs |-> <<>>, syms |-> <<>>]
HasRule(b, name) == \E i \in 1..Len(b.rules) : b.rules[i].name = name
HasFn(b, name) == \E i \in 1..Len(b.funcs) : b.funcs[i].name = name

\* each builder operation returns [ok, b] or [ok |-> FALSE, e, n, b |-> unchanged builder]
BOk(b) == [ok |-> TRUE, b |-> b]
BErr(c, n, b) == [ok |-> FALSE, e |-> c, n |-> n, b |-> b]

WithRule(b, r) == IF HasRule(b, r.name) THEN BErr("DupRule", r.name, b)
                  ELSE BOk([b EXCEPT !.rules = Append(@, r)])
RECURSIVE WithRulesR(_, _, _, _)
WithRulesR(b0, b, rs, i) == IF i > Len(rs) THEN BOk(b)
                            ELSE LET x == WithRule(b, rs[i]) IN
                                 IF x.ok THEN WithRulesR(b0, x.b, rs, i + 1) ELSE BErr(x.e, x.n, b0)
WithRules(b, rs) == WithRulesR(b, b, rs, 1)

WithFunction(b, f) ==
  IF f.name \in Reserved \/ ~WellFormed(f.name) THEN BErr("BadFnName", f.name, b)
  ELSE IF HasFn(b, f.name) THEN BErr("DupFn", f.name, b)
  ELSE BOk([b EXCEPT !.funcs = Append(@, f)])
RECURSIVE WithFunctionsR(_, _, _, _)
WithFunctionsR(b0, b, fs, i) == IF i > Len(fs) THEN BOk(b)
                                ELSE LET x == WithFunction(b, fs[i]) IN
                                     IF x.ok THEN WithFunctionsR(b0, x.b, fs, i + 1) ELSE BErr(x.e, x.n, b0)
WithFunctions(b, fs) == WithFunctionsR(b, b, fs, 1)

\* symbols: the value most recently registered under a name wins
RECURSIVE SymPut(_, _, _)
SymPut(syms, n, v) == IF syms = <<>> THEN << <<n, v>> >>
                      ELSE IF syms[1][1] = n THEN << <<n, v>> >> \o Tail(syms)
                      ELSE <<syms[1]>> \o SymPut(Tail(syms), n, v)
WithSymbol(b, n, v) == BOk([b EXCEPT !.syms = SymPut(@, n, v)])
RECURSIVE WithSymbolsR(_, _, _)
WithSymbolsR(syms, tab, i) == IF i > Len(tab) THEN syms ELSE WithSymbolsR(SymPut(syms, tab[i][1], tab[i][2]), tab, i + 1)
WithSymbols(b, tab) == BOk([b EXCEPT !.syms = WithSymbolsR(@, tab, 1)])

Build(b) == b          \* the ruleset holds exactly what the builder accepted

\* ---- evaluations (C09, C11, C12, C18) ----------------------------------------------

EnvOf(rs, input, ev) == [input |-> input, syms |-> rs.syms, funcs |-> rs.funcs, ev |-> ev]
InitGs(rs) == [counts |-> [i \in 1..Len(rs.funcs) |-> 0], calls |-> <<>>]

\* Start: a fresh evaluation with an EMPTY cache (nothing is remembered from earlier evaluations)
StartEval(rs, input) ==
  IF rs.rules = <<>> THEN [input |-> input, ri |-> 1, ms |-> Ret(StartMs(Val(VNone), <<>>), Ok(VNone)), outcomes |-> <<>>, status |-> "ready"]
  ELSE [input |-> input, ri |-> 1, ms |-> StartMs(rs.rules[1].expr, <<>>), outcomes |-> <<>>, status |-> "run"]

\* when the machine of the current rule is done: record the outcome, move to the next rule (same cache)
Advance(rs, ev) ==
  LET outs == Append(ev.outcomes, [rule |-> rs.rules[ev.ri].name, o |-> ev.ms.mode.o]) IN
  IF ev.ri = Len(rs.rules) THEN [ev EXCEPT !.outcomes = outs, !.status = "ready"]
  ELSE [ev EXCEPT !.outcomes = outs, !.ri = @ + 1, !.ms = StartMs(rs.rules[ev.ri + 1].expr, ev.ms.cache)]

\* one micro-step of evaluation e (the grain at which threads interleave): [ev, gs, yielded]
MicroStep(rs, ev, gs, id) ==
  IF ev.status = "ready" THEN [ev |-> [ev EXCEPT !.status = "done"], gs |-> gs, yielded |-> FALSE]
  ELSE IF IsDone(ev.ms) THEN [ev |-> Advance(rs, ev), gs |-> gs, yielded |-> FALSE]
  ELSE LET r == Step(ev.ms, gs, EnvOf(rs, ev.input, id)) IN
       [ev |-> [ev EXCEPT !.ms = r.ms], gs |-> r.gs, yielded |-> r.ev = "suspend"]

\* one poll of the future: run until it suspends (Pending) or all rules are done (Ready)
RECURSIVE PollEval(_, _, _, _)
PollEval(rs, ev, gs, id) ==
  IF ev.status = "ready" THEN [ev |-> [ev EXCEPT !.status = "done"], gs |-> gs]
  ELSE LET r == MicroStep(rs, ev, gs, id) IN
       IF r.yielded THEN [ev |-> r.ev, gs |-> r.gs] ELSE PollEval(rs, r.ev, r.gs, id)

\* run an evaluation to completion from Start (sequential use): [ev, gs]
RECURSIVE RunEval(_, _, _, _)
RunEval(rs, ev, gs, id) ==
  LET r == PollEval(rs, ev, gs, id) IN IF r.ev.status = "done" THEN r ELSE RunEval(rs, r.ev, r.gs, id)

\* ---- the reference: a function of ruleset and input only ---------------------------------
\* outcomes of a whole evaluation, by the denotation, threading one cache through the rules
RECURSIVE DenRules(_, _, _, _, _, _)
DenRules(rs, input, id, i, st, acc) ==
  IF i > Len(rs.rules) THEN [outcomes |-> acc, st |-> st]
  ELSE LET r == Den(rs.rules[i].expr, EnvOf(rs, input, id), st) IN
       DenRules(rs, input, id, i + 1, r.st, Append(acc, [rule |-> rs.rules[i].name, o |-> r.o]))
\* st0 carries the functions' counters as they stand; the cache always starts empty
DenRuleSet(rs, input, id, counts) == DenRules(rs, input, id, 1, [cache |-> <<>>, counts |-> counts, calls |-> <<>>, taint |-> FALSE], <<>>)
\* a single rule on its own, with an empty cache (the isolation reference of C09)
DenAlone(rs, input, id, i, counts) == Den(rs.rules[i].expr, EnvOf(rs, input, id), [cache |-> <<>>, counts |-> counts, calls |-> <<>>, taint |-> FALSE]).o
=============================================================================
