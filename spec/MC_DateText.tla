----------------------------- MODULE MC_DateText -----------------------------
(***************************************************************************)
(* C02 / C08-like for `datetime("...")`: the text form of instants.        *)
(* Universe: a well-formed timestamp cut into its 16 parts (leading blank, *)
(* year, dash, month, dash, day, separator, hour, colon, minute, colon,     *)
(* second, fraction, blank, offset, trailer), each part with a list of     *)
(* alternatives (other spellings, boundary values, malformed forms); every *)
(* text in which at most Dev (2 or 3) parts deviate from the base; plus the *)
(* calendar matrix (years x months x last day and the day after).  The     *)
(* reader (Ops.tla, ParseDateStr) is a transcription of the date-time      *)
(* library's relaxed RFC 3339 reader; the examples below restate a few     *)
(* results independently.                                                  *)
(***************************************************************************)
EXTENDS Ops, TLC, Json

CONSTANT Dev       \* how many parts may deviate at once (2 or 3)
VARIABLE c

Minus == <<8722>>
Parts == <<
  << <<>>, S(" "), <<9, 10>>, <<12288>>, S("x") >>,
  << S("2015"), S("0001"), S("+2015"), S("-0001"), S("+262142"), S("-262143"), S("+262143"), S("-262144"), S("20155"), S("15"), S("+000002015"),
     S("9999"), S("0000"), S("-0"), <<>>, S("+"), S("+99999999999999999999"), S("2O15") >>,
  << S("-"), S(" - "), S("/"), <<>>, S("--") >>,
  << S("07"), S("7"), S("13"), S("00"), S("02"), S("12"), S("007"), <<>> >>,
  << S("-"), S("- "), S(" -"), S(":") >>,
  << S("30"), S("1"), S("29"), S("31"), S("00"), S("32"), S("9"), S("030") >>,
  << S("T"), S("t"), S(" "), S("  "), S("T "), <<>>, <<10>>, S("_"), S("TT"), <<160>> >>,
  << S("03"), S("3"), S("24"), S("23"), S("00"), S("003"), <<>> >>,
  << S(":"), S(" : "), <<>>, S("."), S("::") >>,
  << S("26"), S("6"), S("60"), S("59"), S("00"), <<>> >>,
  << S(":"), S(": "), S(" :"), <<>> >>,
  << S("13"), S("3"), S("60"), S("61"), S("59"), S("00"), <<>> >>,
  << <<>>, S(".5"), S(".123456789"), S(".1234567891"), S("."), S(" .5"), S(".999999999999"), S(".000000001"), S(",5"), S(".5.5") >>,
  << <<>>, S(" "), S("  ") >>,
  << S("Z"), S("z"), S("UTC"), S("utc"), S("Utc"), S("UT"), S("GMT"), S("+00:00"), S("-00:00"), S("+02:00"), S("-05:30"), S("+0200"), S("+02"), S("+02:"), S("+02:60"),
     S("+02:5"), S("+24:00"), S("+23:59"), S("-23:59"), Minus \o S("01:00"), S("+02 : 00"), S("+02::00"), S("+2:00"), <<>>, S("X"), S("+99:59"), S("+ 02:00"), S("Z+02:00") >>,
  << <<>>, S(" "), <<10, 9>>, S("x"), S("Z"), S(" x") >> >>
NP == Len(Parts)

RECURSIVE Build(_, _)           \* f: the alternative chosen at the deviating positions, everything else as in the base
Build(k, f) == IF k > NP THEN <<>> ELSE Parts[k][IF k \in DOMAIN f THEN f[k] ELSE 1] \o Build(k + 1, f)

CalYears == {1970, 2000, 2023, 2024, 1900, 2100, 1, 0, -1, -4, 9999, 10000, 262142, -262143}
RECURSIVE Dec(_)
Dec(n) == IF n < 10 THEN <<48 + n>> ELSE Dec(n \div 10) \o <<48 + (n % 10)>>
Pad(n, w) == LET d == Dec(n) IN [i \in 1..(w - Len(d)) |-> 48] \o d
YearText(y) == IF y >= 0 /\ y <= 9999 THEN Pad(y, 4) ELSE IF y < 0 THEN S("-") \o Pad(-y, 4) ELSE S("+") \o Pad(y, 4)
CalText(y, m, d, t) == YearText(y) \o S("-") \o Pad(m, 2) \o S("-") \o Pad(d, 2) \o t

\* (Init only picks the two positions / the year, Next the alternatives: a state's successors are computed by one worker)
Init == \/ \E i \in 1..NP, j \in 1..NP : i < j /\ c = [stage |-> 0, i |-> i, j |-> j, k |-> 0]
        \/ Dev >= 3 /\ \E i \in 1..NP, j \in 1..NP, k \in 1..NP : i < j /\ j < k /\ c = [stage |-> 0, i |-> i, j |-> j, k |-> k]
        \/ \E y \in CalYears : c = [stage |-> 0, y |-> y]
Next == /\ c.stage = 0
        /\ IF "y" \in DOMAIN c
           THEN \E m \in 1..12, over \in {0, 1}, t \in {S("T00:00:00Z"), S("T23:59:59.999999999Z"), S("T00:00:00+23:59"), S("T23:59:59-23:59")} :
                   c' = [stage |-> 1, text |-> CalText(c.y, m, DaysInMonth(c.y, m) + over, t)]
           ELSE IF c.k = 0 THEN \E a \in 1..Len(Parts[c.i]), b \in 1..Len(Parts[c.j]) : c' = [stage |-> 1, text |-> Build(1, c.i :> a @@ c.j :> b)]
           ELSE \E a \in 2..Len(Parts[c.i]), b \in 2..Len(Parts[c.j]), d \in 2..Len(Parts[c.k]) : c' = [stage |-> 1, text |-> Build(1, c.i :> a @@ c.j :> b @@ c.k :> d)]


\* a few results restated independently of the reader
Examples == <<
  [s |-> S("1970-01-01T00:00:00Z"), v |-> [k |-> "ok", z |-> ZZero]],
  [s |-> S("2015-07-30T03:26:13Z"), v |-> [k |-> "ok", z |-> Instant(2015, 7, 30, 3, 26, 13, ZZero)]],
  [s |-> S("2015-07-30T03:26:13.5+02:00"), v |-> [k |-> "ok", z |-> Instant(2015, 7, 30, 1, 26, 13, ZFromInt(500000000))]],
  [s |-> S("1969-12-31T23:59:59.999999999Z"), v |-> [k |-> "ok", z |-> ZFromInt(-1)]],
  [s |-> S("2000-02-29T12:00:00-05:30"), v |-> [k |-> "ok", z |-> Instant(2000, 2, 29, 17, 30, 0, ZZero)]],
  [s |-> S("2015-7-30 3:26:13 utc"), v |-> [k |-> "ok", z |-> Instant(2015, 7, 30, 3, 26, 13, ZZero)]],
  [s |-> S("+262142-12-31T23:59:59.999999999Z"), v |-> [k |-> "ok", z |-> DTMaxNs]],
  [s |-> S("-262143-01-01T00:00:00Z"), v |-> [k |-> "ok", z |-> DTMinNs]],
  [s |-> S("-262143-01-01T00:00:00+00:01"), v |-> Invalid],       \* the instant is before the first representable one
  [s |-> S("2015-07-30"), v |-> Invalid],
  [s |-> S("2015-07-30T03:26:13"), v |-> Invalid],              \* no offset: not an instant
  [s |-> S("2015-13-01T00:00:00Z"), v |-> Invalid],
  [s |-> S("2015-02-30T00:00:00Z"), v |-> Invalid],
  [s |-> S("1900-02-29T00:00:00Z"), v |-> Invalid],
  [s |-> S("abc"), v |-> Invalid],
  [s |-> S("1"), v |-> Invalid],
  [s |-> S(""), v |-> Invalid] >>
\* (evaluated in one state only)
ExamplesAgree == (c.stage = 0 /\ "y" \in DOMAIN c /\ c.y = 1970) => \A i \in 1..Len(Examples) : ParseDateStr(Examples[i].s) = Examples[i].v
\* a text the reader accepts denotes an instant of the type; one invariant so that the text is read once per state
TextOK == c.stage = 1 =>
  LET d == ParseDateStr(c.text)
      o == Unary("datetime", VStr(c.text))
  IN /\ (d.k = "ok" => DTInRange(d.z) /\ o = Ok(VDT(d.z)))
     /\ (d.k = "invalid" => ~o.ok)
     /\ PrintT("CASE " \o ToJson([k |-> "datetime", a |-> <<VStr(c.text)>>, x |-> o]))
=============================================================================
