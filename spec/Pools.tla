-------------------------------- MODULE Pools --------------------------------
(***************************************************************************)
(* The sample sets of operand values ("Vals" in DESIGN section 6), per     *)
(* type, as sequences.  `Q` pools are the quick-tier subsets; they keep    *)
(* every boundary of every type.  All pools are defined here, once, in     *)
(* TLA+; the Rust harness only replays what TLC enumerates from them.      *)
(***************************************************************************)
EXTENDS Values

P2(k) == ZPow2(k)
Dg(ds) == ZFromDigits(ds)

SecLimit == Dg(<<9,2,2,3,3,7,2,0,3,6,8,5,4,7,7,5>>)          \* i64::MAX ms in whole seconds
MinLimit == Dg(<<1,5,3,7,2,2,8,6,7,2,8,0,9,1,2>>)
HourLimit == Dg(<<2,5,6,2,0,4,7,7,8,8,0,1,5>>)
DayLimit == Dg(<<1,0,6,7,5,1,9,9,1,1,6,7>>)
WeekLimit == Dg(<<1,5,2,5,0,2,8,4,4,5,2>>)

IntsQ == << I(0), I(1), I(-1), I(2), I(3), I(-7), I(12), VInt(P2(63)), VInt(ZAdd(P2(64), ZOne)),
            VInt(P2(96)), VInt(I128Max), VInt(I128Min),
            VInt(SecLimit), VInt(ZAdd(SecLimit, ZOne)), VInt(ZAdd(DTMaxSec, ZOne)),
            VInt(WeekLimit), VInt(ZAdd(WeekLimit, ZOne)),
            \* between the widths: 1.5 * 10^19 (in 2^63..2^64), u64::MAX
            VInt(Dg(<<1,5,0,0,0,0,0,0,0,0,0,0,0,0,0,0,0,0,0,0>>)), VInt(ZSub(P2(64), ZOne)) >>
IntsX == << I(6), I(7), I(10), I(32768), VInt(P2(31)), VInt(ZSub(P2(63), ZOne)), VInt(ZNeg(P2(63))),
            VInt(ZSub(ZNeg(P2(63)), ZOne)), VInt(P2(64)), VInt(ZSub(P2(96), ZOne)),
            VInt(ZSub(I128Max, ZOne)), VInt(ZAdd(I128Min, ZOne)),
            VInt(ZNeg(SecLimit)), VInt(ZNeg(ZAdd(SecLimit, ZOne))),
            VInt(DTMaxSec), VInt(DTMinSec), VInt(ZSub(DTMinSec, ZOne)),
            VInt(MinLimit), VInt(ZAdd(MinLimit, ZOne)), VInt(HourLimit), VInt(ZAdd(HourLimit, ZOne)),
            VInt(DayLimit), VInt(ZAdd(DayLimit, ZOne)), VInt(ZNeg(ZAdd(WeekLimit, ZOne))),
            I(1438226773), VInt(ZAdd(P2(53), ZOne)), I(-3), I(255) >>

FMaxV == VFloat(FNorm(1, MSub(MPow2(53), <<1>>), 971))                  \* f64::MAX
FTenth == VFloat(FNorm(1, MFromDigits(<<3,6,0,2,8,7,9,7,0,1,8,9,6,3,9,7>>), -55))   \* 0.1
F1e40 == VFloat(FFromDecimal(1, <<1>>, 40))
FloatsQ == << VFloat(FZero(1)), VFloat(FZero(-1)), Fl(1, 1, 0), Fl(-1, 1, 0), Fl(1, 1, -1), Fl(1, 5, -1),
              Fl(-1, 5, -1), Fl(1, 3, 0), FTenth, VFloat(FNorm(1, <<1>>, 63)), VFloat(FNorm(1, <<1>>, 127)),
              F1e40, FMaxV, VFloat(FInf(1)), VFloat(FInf(-1)), VFloat(FNaN) >>
FloatsX == << Fl(1, 3, -1), Fl(-1, 3, -1), Fl(1, 7, -2), VFloat(FNorm(1, <<1>>, 53)), VFloat(FNorm(-1, <<1>>, 127)),
              VFloat(FNorm(1, <<1>>, -1074)), VFloat(FNorm(1, MAdd(MPow2(53), <<2>>), 0)),
              VFloat(FNorm(-1, <<1>>, 63)), Fl(1, 7, 0), VFloat(FNorm(1, <<1>>, 96)), Fl(-1, 7, -1),
              VFloat(FNorm(1, <<1>>, -1022)), VFloat(FNorm(1, <<1>>, 64)),
              VFloat(FFromDecimal(1, <<95>>, 17)), VFloat(FFromDecimal(1, MFromDigits(<<1,2,3,4,5,6,7,8,9,0,1,2,3,4,5,6,7>>), 3)),
              VFloat(FFromDecimal(-1, MFromDigits(<<2,7,1,8,2,8,1,8,2,8,4,5,9,0,4,5>>), -15)), VFloat(FFromDecimal(1, <<25>>, -21)) >>

DecMaxV == VDec(Z(1, DecMaxM), 0)
DecsQ == << Dc(0, 0), Dc(0, 1), Dc(1, 0), Dc(-1, 0), Dc(10, 1), Dc(150, 2), Dc(25, 1), Dc(-25, 1), Dc(35, 1),
            Dc(1, 1), Dc(3, 0), DecMaxV, VDec(Z(-1, DecMaxM), 0), Dc(1, 28), Dc(5, 1), Dc(4, 1) >>
DecsX == << Dc(10, 0), VDec(Z(1, MSub(DecMaxM, <<1>>)), 0), Dc(725, 2), Dc(-5, 1), Dc(-15, 1), Dc(7, 0),
            VDec(Z(1, DecMaxM), 28), Dc(250000001, 8), Dc(2, 0), Dc(-35, 1), Dc(45, 1),
           VDec(Z(1, MFromDigits(<<1,2,3,4,5,6,7,8,9,0,1,2,3,4,5,6,7,8,9>>)), 15), VDec(Z(-1, MFromDigits(<<9,9,9,9,9,9,9,9,9,9,9,9,9,9,9,9,9,9,9,5>>)), 19) >>

StrsQ == << St(""), St("a"), St("A"), St("abc"), St(" a "), St(" "), VStr(<<9, 10, 8195>>), St("1"), St("i1"), St("1.5"), St("true"),
            St("NaN"), St("-7"), St("2015-07-30T03:26:13Z"), St("2015-02-30T00:00:00Z"), St("2015-07-30T03:26:13"),
            VStr(<<233, 223, 65>>), VStr(<<12288, 120, 160, 9>>) >>
StrsX == << St("1e5"), St("+5"), St("b"), St("ab"), St("bc"), St("1970-01-01T00:00:00Z"),
            St("1969-12-31T23:59:59.999999999Z"), St("2015-07-30T03:26:13.5+02:00"), St("2015-07-30"),
            St("170141183460469231731687303715884105727"), St("170141183460469231731687303715884105728"),
            St("-170141183460469231731687303715884105728"), St("inf"), St("-Infinity"), St(".5"), St("5."),
            St("1.5e3"), St("1e999"), St("-0"), St(" 1"), St("1 "), St("1_000"), St("0x10"), St("1.50"),
            St("79228162514264337593543950335"), St("79228162514264337593543950336"),
            St("0.12345678901234567890123456789"), St("abc"), VStr(<<8203, 97, 8203>>), St("e5"), St("1e"),
            St("--1"), St("+"), St("."), St("1.2.3"), St("Abc"), St("aBC dEF"),
            VStr(<<255, 181, 224, 215, 247, 192, 222, 170>>) >>

DTMid == VDT(Instant(2015, 7, 30, 3, 26, 13, Dg(<<1,2,3,4,5,6,7,8,9>>)))
DTsQ == << VDT(ZZero), DTMid, VDT(ZFromInt(-500000000)), VDT(Instant(2000, 2, 29, 23, 59, 59, ZZero)),
           VDT(DTMinNs), VDT(DTMaxNs) >>
DTsX == << VDT(Instant(2100, 3, 1, 0, 0, 0, ZZero)), VDT(ZSub(DTMaxNs, NsPerSec)),
           VDT(Instant(1999, 12, 31, 23, 59, 60 - 1, ZZero)), VDT(Instant(-1, 1, 1, 0, 0, 1, ZZero)),
           VDT(Instant(1900, 3, 1, 12, 30, 0, ZZero)) >>

Sec(n) == VDur(ZMul(ZFromInt(n), NsPerSec))
DursQ == << Sec(0), Sec(1), Sec(-1), VDur(Dg(<<1,5,0,0,0,0,0,0,0,0>>)), Sec(604800), Sec(-691200),
            VDur(DurMaxNs), VDur(DurMinNs) >>
DursX == << Sec(-129600), Sec(5400), VDur(ZSub(DurMaxNs, NsPerSec)), Sec(86399), Sec(3661),
            VDur(ZNeg(Dg(<<1,5,0,0,0,0,0,0,0,0>>))), Sec(1209600) >>

VecsQ == << VVec(<<>>), VVec(<<I(1)>>), VVec(<<I(1), St("a")>>), VVec(<<VNone>>), VVec(<<Dc(10, 1), VFloat(FNaN)>>) >>
VecsX == << VVec(<<VVec(<<I(1)>>)>>), VVec(<<Fl(1, 1, 0)>>), VVec(<<VBool(TRUE)>>), VVec(<<I(2), I(1)>>) >>

MapsQ == << VMap(<<>>), VMap(<< <<S("a"), I(1)>> >>), VMap(<< <<S("a"), VNone>>, <<S("b"), St("x")>> >>),
            VMap(<< <<S("A"), I(2)>>, <<S("facts"), I(3)>> >>) >>
MapsX == << VMap(<< <<S("a"), VMap(<< <<S("b"), I(1)>> >>)>> >>), VMap(<< <<S("1"), I(1)>> >>),
            VMap(<< <<S(""), I(0)>> >>) >>

BoolsQ == << VBool(TRUE), VBool(FALSE) >>

PoolQ(t) == CASE t = "None" -> <<VNone>> [] t = "Bool" -> BoolsQ [] t = "Int" -> IntsQ
              [] t = "Float" -> FloatsQ [] t = "Dec" -> DecsQ [] t = "Str" -> StrsQ
              [] t = "DT" -> DTsQ [] t = "Dur" -> DursQ [] t = "Vec" -> VecsQ [] t = "Map" -> MapsQ
PoolX(t) == CASE t = "None" -> <<>> [] t = "Bool" -> <<>> [] t = "Int" -> IntsX
              [] t = "Float" -> FloatsX [] t = "Dec" -> DecsX [] t = "Str" -> StrsX
              [] t = "DT" -> DTsX [] t = "Dur" -> DursX [] t = "Vec" -> VecsX [] t = "Map" -> MapsX
PoolT(t) == PoolQ(t) \o PoolX(t)

RECURSIVE Concat(_, _, _)
Concat(F(_), ts, i) == IF i > Len(ts) THEN <<>> ELSE F(ts[i]) \o Concat(F, ts, i + 1)
ValsQ == Concat(PoolQ, Types, 1)
ValsT == Concat(PoolT, Types, 1)
\* a small pool: >= 3 values per type including the family that would coincide after coercion
\* (i1 / f1 / d1 / d1.0 / "1" / true / [i1] / "2015-07-30T03:26:13Z")
ValsC == << VNone, VBool(TRUE), VBool(FALSE), I(1), I(0), I(2), Fl(1, 1, 0), VFloat(FZero(1)), Fl(1, 1, 1),
            Dc(1, 0), Dc(10, 1), Dc(0, 0), St("1"), St(""), St("true"), VDT(ZZero), VDT(NsPerSec), DTMid,
            Sec(0), Sec(1), Sec(2), VVec(<<I(1)>>), VVec(<<>>), VVec(<<St("1")>>),
            VMap(<<>>), VMap(<< <<S("1"), I(1)>> >>), VMap(<< <<S("a"), I(1)>> >>),
            \* strings that are the TEXT of a value of another type (an instant, a decimal, a duration in seconds): a
            \* string is never read as the value it spells unless an explicit cast is applied
            St("2015-07-30T03:26:13Z"), St("1.5"), St("3600") >>
=============================================================================
