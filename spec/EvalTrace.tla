------------------------------- MODULE EvalTrace -------------------------------
(***************************************************************************)
(* Trace validation for single evaluations recorded from the real code on  *)
(* seeded random deep expressions (C01-C05, C10): one record per           *)
(* evaluation  [prog, env, x |-> observation, calls |-> <<[f, arg]...>>].  *)
(* The specification recomputes the denotation with its own exact          *)
(* arithmetic and must agree on the outcome and on the invocation          *)
(* sequence.  Records whose denotation passes through a result that is     *)
(* only prescribed up to a tolerance (inexact Decimal results, float of a  *)
(* Decimal, dec of a Float) or through an unmodelled string cast are       *)
(* "tainted": they are counted, not compared beyond panic-freedom.         *)
(***************************************************************************)
EXTENDS TraceCommon, TLC, Json, IOUtils

Rec == ndJsonDeserialize(IOEnv.TRACE)
VARIABLE i
Chunk == 50
Init == i \in {1 + k * Chunk : k \in 0..((Len(Rec) - 1) \div Chunk)}
Next == i % Chunk # 0 /\ i < Len(Rec) /\ i' = i + 1

EnvOfRec(r) == [input |-> r.env.input, syms |-> r.env.syms, funcs |-> r.env.funcs, ev |-> 1]
Accepted ==
  LET r == Rec[i]
      env == EnvOfRec(r)
      d == Den(r.prog, env, EmptySt(env))
  IN IF "panic" \in DOMAIN r.x THEN FALSE
     ELSE d.st.taint \/ (ObsMatches(d.o, r.x) /\ CallsMatch(d.st.calls, r.calls))
\* how many records were compared in full (printed once per tainted record)
TaintCount == LET r == Rec[i] env == EnvOfRec(r) IN Den(r.prog, env, EmptySt(env)).st.taint => PrintT("TAINTED")
=============================================================================
