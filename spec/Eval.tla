--------------------------------- MODULE Eval ---------------------------------
(***************************************************************************)
(* The evaluator of reval expressions, twice:                              *)
(*                                                                         *)
(*  1. Den: a big-step denotation  Den(e, env, st) = [o, st']  where st     *)
(*     threads the per-evaluation function cache and the global invocation *)
(*     log.  It states the order/laziness/exactly-once rules of C05, the   *)
(*     lookup rules of C10 and the caching rules of C11 directly.          *)
(*                                                                         *)
(*  2. A small-step machine (continuation stack of frames) with the grain  *)
(*     of the implementation: one step per node entered, per value         *)
(*     returned to a parent, per user-function invocation, per suspension  *)
(*     of a pending user function.  This is what is interleaved, polled    *)
(*     and dropped in RuleSet.tla (C09, C11, C12, C18).                    *)
(*                                                                         *)
(* MC_Eval checks that the machine refines Den.                            *)
(*                                                                         *)
(* Expressions (same encoding as the JSON the harness exchanges):          *)
(*   [k |-> "val", v]  [k |-> "ref", n]  [k |-> "sym", n]                   *)
(*   [k |-> "call", n, a |-> <<arg>>]   [k |-> "index", a |-> <<e>>, i]     *)
(*   [k |-> "if", a |-> <<c, t, f>>]  [k |-> "vec", a]  [k |-> "map", kv]    *)
(*   [k |-> <unary/binary kind>, a |-> <<operands>>]                        *)
(* Environment: [input, syms |-> <<<<name, value>>...>>, funcs |-> <<f...>>, *)
(*   ev |-> id of the evaluation (recorded in the invocation log)]          *)
(*   f = [name, cacheable, suspend, script |-> <<r...>>],                   *)
(*   r = [r |-> "v", v] | [r |-> "fail", msg] | [r |-> "counter"]           *)
(*       | [r |-> "echo"] | [r |-> "tagged"]      (n-th invocation -> r[n],  *)
(*   the last entry repeating)                                             *)
(***************************************************************************)
EXTENDS Ops

ErrN(c, n) == [ok |-> FALSE, e |-> c, n |-> n]
FnErr(n, msg) == [ok |-> FALSE, e |-> "FnError", n |-> n, msg |-> msg]

Val(v) == [k |-> "val", v |-> v]
Ref(n) == [k |-> "ref", n |-> n]
Sym(n) == [k |-> "sym", n |-> n]
Call(n, a) == [k |-> "call", n |-> n, a |-> <<a>>]
Idx(e, i) == [k |-> "index", a |-> <<e>>, i |-> i]
FieldI(name) == [k |-> "f", name |-> name]
PosI(i) == [k |-> "i", i |-> i]
If(c, t, f) == [k |-> "if", a |-> <<c, t, f>>]
VecE(xs) == [k |-> "vec", a |-> xs]
MapE(kv) == [k |-> "map", kv |-> kv]
Un(k, a) == [k |-> k, a |-> <<a>>]
Bin(k, a, b) == [k |-> k, a |-> <<a, b>>]

LazyKinds == {"eq", "neq", "and", "or"}
IsUnaryKind(k) == \E i \in 1..Len(UnaryKinds) : UnaryKinds[i] = k
IsStrictBinaryKind(k) == \E i \in 1..Len(StrictBinaryKinds) : StrictBinaryKinds[i] = k

\* children of a node, in evaluation order
Children(e) == IF e.k = "map" THEN [i \in 1..Len(e.kv) |-> e.kv[i][2]]
               ELSE IF e.k \in {"val", "ref", "sym"} THEN <<>> ELSE e.a

----------------------------------------------------------------------------
(* lookups (C10) *)

FactsName == S("facts")
LookupRef(env, name) ==
  IF name = FactsName THEN Ok(env.input)
  ELSE IF env.input.t = "Map" THEN
       (IF MapHas(env.input.kv, name) THEN Ok(MapGet(env.input.kv, name)) ELSE ErrN("UnknownRef", name))
  ELSE TypeErr
LookupSym(env, name) ==
  IF \E i \in 1..Len(env.syms) : env.syms[i][1] = name
  THEN Ok(env.syms[CHOOSE i \in 1..Len(env.syms) : env.syms[i][1] = name][2])
  ELSE ErrN("Symbol", name)
FnIndex(env, name) ==
  IF \E i \in 1..Len(env.funcs) : env.funcs[i].name = name
  THEN CHOOSE i \in 1..Len(env.funcs) : env.funcs[i].name = name ELSE 0

\* applying a strict node to the values of its children
Apply(e, vals) ==
  CASE e.k = "vec" -> Ok(VVec(vals))
    [] e.k = "map" -> Ok(VMap([i \in 1..Len(e.kv) |-> <<e.kv[i][1], vals[i]>>]))
    [] e.k = "index" -> IndexOp(vals[1], e.i)
    [] IsUnaryKind(e.k) -> Unary(e.k, vals[1])
    [] IsStrictBinaryKind(e.k) -> Binary(e.k, vals[1], vals[2])

----------------------------------------------------------------------------
(* user functions: cache, counters, invocation log *)

\* st = [cache |-> <<[f, a, v]...>>, counts |-> <<n per function>>, calls |-> <<[f, arg, n]...>>]
\* taint: some result so far is only prescribed up to a tolerance (or is not modelled): everything computed
\* from it is not compared by the trace specifications
EmptySt(env) == [cache |-> <<>>, counts |-> [i \in 1..Len(env.funcs) |-> 0], calls |-> <<>>, taint |-> FALSE]
IsAp(o) == "ap" \in DOMAIN o \/ "alt" \in DOMAIN o
CacheHas(cache, f, a) == \E i \in 1..Len(cache) : cache[i].f = f /\ cache[i].a = a
CacheGet(cache, f, a) == cache[CHOOSE i \in 1..Len(cache) : cache[i].f = f /\ cache[i].a = a].v

InvalidTypeText == S("Tried to perform an operation on a value with an invalid type")
ScriptEntry(fn, n) == fn.script[IF n <= Len(fn.script) THEN n ELSE Len(fn.script)]
\* the result of the n-th invocation of fn on arg
FnResult(fn, arg, n) ==
  LET r == ScriptEntry(fn, n) IN
  CASE r.r = "v" -> Ok(r.v)
    [] r.r = "fail" -> FnErr(fn.name, r.msg)
    [] r.r = "failtype" -> FnErr(fn.name, InvalidTypeText)     \* fails with a library error value as its error
    [] r.r = "counter" -> Ok(I(n))
    [] r.r = "echo" -> Ok(arg)
    [] r.r = "tagged" -> Ok(VVec(<<arg, I(n)>>))
    [] r.r = "double" -> IF arg.t = "Int" /\ IntInRange(ZMul(arg.n, ZFromInt(2))) THEN Ok(VInt(ZMul(arg.n, ZFromInt(2))))
                         ELSE FnErr(fn.name, S("not a small int"))
    [] r.r = "negate" -> IF arg.t = "Int" /\ IntInRange(ZNeg(arg.n)) THEN Ok(VInt(ZNeg(arg.n)))
                         ELSE FnErr(fn.name, S("not a small int"))

\* a call with an evaluated argument: [o, st]
DoCall(env, st, name, arg) ==
  LET fi == FnIndex(env, name) IN
  IF fi = 0 THEN [o |-> ErrN("UnknownFn", name), st |-> st]
  ELSE LET fn == env.funcs[fi] IN
       IF fn.cacheable /\ CacheHas(st.cache, name, arg) THEN [o |-> Ok(CacheGet(st.cache, name, arg)), st |-> st]
       ELSE LET n == st.counts[fi] + 1
                o == FnResult(fn, arg, n)
                st1 == [st EXCEPT !.counts[fi] = n, !.calls = Append(@, [f |-> name, arg |-> arg, n |-> n, ev |-> env.ev])]
            IN [o |-> o,
                st |-> IF fn.cacheable /\ o.ok THEN [st1 EXCEPT !.cache = Append(@, [f |-> name, a |-> arg, v |-> o.v])]
                       ELSE st1]

----------------------------------------------------------------------------
(* 1. the denotation *)

RECURSIVE Den(_, _, _)
RECURSIVE DenSeq(_, _, _, _, _)
\* evaluate children es[i..] left to right, stopping at the first error: [ok, vals, o, st]
DenSeq(es, i, env, st, acc) ==
  IF i > Len(es) THEN [ok |-> TRUE, vals |-> acc, st |-> st]
  ELSE LET r == Den(es[i], env, st) IN
       IF ~r.o.ok THEN [ok |-> FALSE, o |-> r.o, st |-> r.st]
       ELSE DenSeq(es, i + 1, env, r.st, Append(acc, r.o.v))

Den(e, env, st) ==
  CASE e.k = "val" -> [o |-> Ok(e.v), st |-> st]
    [] e.k = "ref" -> [o |-> LookupRef(env, e.n), st |-> st]
    [] e.k = "sym" -> [o |-> LookupSym(env, e.n), st |-> st]
    [] e.k = "if" ->
         LET c == Den(e.a[1], env, st) IN
         IF ~c.o.ok THEN c
         ELSE IF c.o.v.t # "Bool" THEN [o |-> TypeErr, st |-> c.st]
         ELSE IF c.o.v.b THEN Den(e.a[2], env, c.st) ELSE Den(e.a[3], env, c.st)
    [] e.k \in LazyKinds ->
         LET l == Den(e.a[1], env, st) IN
         IF ~l.o.ok THEN l
         ELSE IF ~RightNeeded(e.k, l.o.v) THEN [o |-> LeftDecides(e.k, l.o.v), st |-> l.st]
         ELSE LET r == Den(e.a[2], env, l.st) IN
              IF ~r.o.ok THEN r ELSE [o |-> WithRight(e.k, l.o.v, r.o.v), st |-> r.st]
    [] e.k = "call" ->
         LET a == Den(e.a[1], env, st) IN
         IF ~a.o.ok THEN a ELSE DoCall(env, a.st, e.n, a.o.v)
    [] OTHER ->
         LET r == DenSeq(Children(e), 1, env, st, <<>>) IN
         IF ~r.ok THEN [o |-> r.o, st |-> r.st]
         ELSE LET o == Apply(e, r.vals) IN [o |-> o, st |-> IF IsAp(o) THEN [r.st EXCEPT !.taint = TRUE] ELSE r.st]

----------------------------------------------------------------------------
(* 2. the small-step machine *)
(* ms = [mode, stack, cache]                                               *)
(*   mode = [m |-> "eval", e] | [m |-> "ret", o]                            *)
(*        | [m |-> "call", fi, arg, n, left]   (a pending user function)    *)
(*   stack = sequence of frames [e, pos, vals], innermost last              *)
(* gs = [counts, calls]  (global: shared by all evaluations of a ruleset)   *)

StartMs(e, cache) == [mode |-> [m |-> "eval", e |-> e], stack |-> <<>>, cache |-> cache]
IsDone(ms) == ms.mode.m = "ret" /\ ms.stack = <<>>
Pop(s) == SubSeq(s, 1, Len(s) - 1)
Top(s) == s[Len(s)]
Ret(ms, o) == [ms EXCEPT !.mode = [m |-> "ret", o |-> o]]
RetPop(ms, o) == [ms EXCEPT !.mode = [m |-> "ret", o |-> o], !.stack = Pop(@)]

\* name of the step the machine takes next (the action names of DESIGN section 3)
StepKind(ms, env) ==
  IF ms.mode.m = "eval" THEN
       (IF ms.mode.e.k \in {"val"} THEN "Literal"
        ELSE IF ms.mode.e.k \in {"ref", "sym"} THEN "Lookup"
        ELSE IF Children(ms.mode.e) = <<>> THEN "EmptyContainer" ELSE "Enter")
  ELSE IF ms.mode.m = "call" THEN (IF ms.mode.left > 0 THEN "Suspend" ELSE "Finish")
  ELSE IF ms.stack = <<>> THEN "Done"
  ELSE IF ~ms.mode.o.ok THEN "Propagate"
  ELSE LET f == Top(ms.stack) IN
       CASE f.e.k = "if" -> IF f.pos = 1 THEN "ChooseBranch" ELSE "ReturnBranch"
         [] f.e.k \in LazyKinds ->
              IF f.pos = 1 THEN (IF RightNeeded(f.e.k, ms.mode.o.v) THEN "EvalRight" ELSE "ShortCircuit")
              ELSE "ReturnLazy"
         [] f.e.k = "call" ->
              LET fi == FnIndex(env, f.e.n) IN
              IF fi = 0 THEN "CallUnknown"
              ELSE IF env.funcs[fi].cacheable /\ CacheHas(ms.cache, f.e.n, ms.mode.o.v) THEN "CacheHit"
              ELSE "Invoke"
         [] OTHER -> IF f.pos < Len(Children(f.e)) THEN "NextItem" ELSE "Return"

\* one step: [ms, gs, ev] with ev in {"step", "suspend"}; not enabled when IsDone(ms)
Step(ms, gs, env) ==
  LET same(m2) == [ms |-> m2, gs |-> gs, ev |-> "step"] IN
  IF ms.mode.m = "eval" THEN
     LET e == ms.mode.e IN
     CASE e.k = "val" -> same(Ret(ms, Ok(e.v)))
       [] e.k = "ref" -> same(Ret(ms, LookupRef(env, e.n)))
       [] e.k = "sym" -> same(Ret(ms, LookupSym(env, e.n)))
       [] OTHER ->
            IF Children(e) = <<>> THEN same(Ret(ms, Apply(e, <<>>)))
            ELSE same([ms EXCEPT !.stack = Append(@, [e |-> e, pos |-> 1, vals |-> <<>>]),
                                 !.mode = [m |-> "eval", e |-> Children(e)[1]]])
  ELSE IF ms.mode.m = "call" THEN
     LET c == ms.mode fn == env.funcs[c.fi] IN
     IF c.left > 0 THEN [ms |-> [ms EXCEPT !.mode.left = @ - 1], gs |-> gs, ev |-> "suspend"]
     ELSE LET o == FnResult(fn, c.arg, c.n) IN
          same([RetPop(ms, o) EXCEPT !.cache = IF fn.cacheable /\ o.ok
                                                THEN Append(@, [f |-> fn.name, a |-> c.arg, v |-> o.v]) ELSE @])
  ELSE \* mode "ret", stack non-empty
     LET o == ms.mode.o f == Top(ms.stack) IN
     IF ~o.ok THEN same(RetPop(ms, o))
     ELSE CASE f.e.k = "if" ->
            IF f.pos = 1 THEN
                 (IF o.v.t # "Bool" THEN same(RetPop(ms, TypeErr))
                  ELSE LET b == IF o.v.b THEN 2 ELSE 3 IN
                       same([ms EXCEPT !.stack[Len(ms.stack)].pos = b, !.mode = [m |-> "eval", e |-> f.e.a[b]]]))
            ELSE same(RetPop(ms, o))
       [] f.e.k \in LazyKinds ->
            IF f.pos = 1 THEN
                 (IF RightNeeded(f.e.k, o.v)
                  THEN same([ms EXCEPT !.stack[Len(ms.stack)] = [f EXCEPT !.pos = 2, !.vals = <<o.v>>],
                                       !.mode = [m |-> "eval", e |-> f.e.a[2]]])
                  ELSE same(RetPop(ms, LeftDecides(f.e.k, o.v))))
            ELSE same(RetPop(ms, WithRight(f.e.k, f.vals[1], o.v)))
       [] f.e.k = "call" ->
            LET fi == FnIndex(env, f.e.n) IN
            IF fi = 0 THEN same(RetPop(ms, ErrN("UnknownFn", f.e.n)))
            ELSE LET fn == env.funcs[fi] IN
                 IF fn.cacheable /\ CacheHas(ms.cache, f.e.n, o.v) THEN same(RetPop(ms, Ok(CacheGet(ms.cache, f.e.n, o.v))))
                 ELSE LET n == gs.counts[fi] + 1 IN
                      [ms |-> [ms EXCEPT !.mode = [m |-> "call", fi |-> fi, arg |-> o.v, n |-> n, left |-> fn.suspend]],
                       gs |-> [gs EXCEPT !.counts[fi] = n, !.calls = Append(@, [f |-> f.e.n, arg |-> o.v, n |-> n, ev |-> env.ev])],
                       ev |-> "step"]
       [] OTHER ->
            LET vals == Append(f.vals, o.v) IN
            IF f.pos < Len(Children(f.e))
            THEN same([ms EXCEPT !.stack[Len(ms.stack)] = [f EXCEPT !.pos = @ + 1, !.vals = vals],
                                 !.mode = [m |-> "eval", e |-> Children(f.e)[f.pos + 1]]])
            ELSE same(RetPop(ms, Apply(f.e, vals)))

\* run until the machine is done or has just suspended (one poll of the future): [ms, gs, ev]
RECURSIVE RunPoll(_, _, _)
RunPoll(ms, gs, env) ==
  IF IsDone(ms) THEN [ms |-> ms, gs |-> gs, ev |-> "done"]
  ELSE LET r == Step(ms, gs, env) IN
       IF r.ev = "suspend" THEN r ELSE RunPoll(r.ms, r.gs, env)

\* run to completion (ignoring suspensions): [ms, gs]
RECURSIVE RunAll(_, _, _)
RunAll(ms, gs, env) == IF IsDone(ms) THEN [ms |-> ms, gs |-> gs]
                       ELSE LET r == Step(ms, gs, env) IN RunAll(r.ms, r.gs, env)
=============================================================================
