------------------------------- MODULE CacheAbs -------------------------------
(***************************************************************************)
(* The user-function cache as an abstract protocol (C11, and the part of   *)
(* C12 / C18 that is about the cache): what is remembered, for whom, for   *)
(* how long - with everything else about evaluation abstracted away.       *)
(*                                                                         *)
(* Evaluations e of ONE shared ruleset run concurrently.  Each call of a   *)
(* user function f on an argument a inside evaluation e is                 *)
(*   Hit(e, f, a)      f is cacheable and e's cache has (f, a)             *)
(*   Invoke(e, f, a)   otherwise: f is entered (its own counter advances); *)
(*                     the call may now suspend for as long as it likes,   *)
(*                     other evaluations run meanwhile, e may be dropped   *)
(*   ReturnOk(e) / ReturnFail(e)   the pending call of e completes; only a *)
(*                     successful result of a cacheable f is remembered    *)
(* A result is abstracted to the ORDINAL of the invocation that produced   *)
(* it (the n-th entry into f), so that any sharing of results - between    *)
(* arguments, functions or evaluations - shows as two equal ordinals.      *)
(*                                                                         *)
(* This module is small and flat on purpose: its invariant IndInv is       *)
(* INDUCTIVE and is discharged by Apalache for histories of any length     *)
(* (MC_CacheAbsApa), where TLC on the implementation-shaped machine of     *)
(* RuleSet.tla reaches three or four calls.  The two are tied together by  *)
(* a refinement mapping (MC_Refine): every micro-step of the RuleSet.tla   *)
(* machine - the one that is bound to the code by replay and by trace      *)
(* validation - is a step of this protocol or leaves its variables alone.  *)
(***************************************************************************)
EXTENDS Integers

CONSTANTS
    \* @type: Set(Int);
    Ev,             \* evaluation ids
    \* @type: Set(FN);
    Fn,             \* registered user functions
    \* @type: Set(FN);
    CacheableFn,    \* those that declare themselves cacheable
    \* @type: Set(ARG);
    Arg,            \* argument values (identity of the value as written)
    \* @type: FN;
    NoF,            \* placeholders shown while no call is pending
    \* @type: ARG;
    NoA

VARIABLES
    \* @type: Int -> Str;
    status,         \* "idle" | "run" | "done" | "dropped"
    \* @type: <<Int, FN, ARG>> -> Int;
    cached,         \* e's cache: 0 = absent, n > 0 = the remembered result (ordinal)
    \* @type: FN -> Int;
    count,          \* entries into f so far (lives in the user function, outside the library)
    \* @type: Int -> FN;
    infF,
    \* @type: Int -> ARG;
    infA,
    \* @type: Int -> Int;
    infN,           \* the pending call of e: function, argument, ordinal (0 = none pending)
    \* ghosts, about the CURRENT run of e only
    \* @type: <<Int, FN, ARG>> -> Int;
    okInv,          \* successful invocations of (f, a) completed in e
    \* @type: <<Int, FN, ARG>> -> Int;
    firstOk         \* ordinal of the first of them (0 = none yet)

vars == <<status, cached, count, infF, infA, infN, okInv, firstOk>>
Key == Ev \X Fn \X Arg

\* @type: (Int, <<Int, FN, ARG>> -> Int) => (<<Int, FN, ARG>> -> Int);
Cleared(e, fun) == [k \in Key |-> IF k[1] = e THEN 0 ELSE fun[k]]

Init == /\ status = [e \in Ev |-> "idle"]
        /\ cached = [k \in Key |-> 0]
        /\ count = [f \in Fn |-> 0]
        /\ infF = [e \in Ev |-> NoF] /\ infA = [e \in Ev |-> NoA] /\ infN = [e \in Ev |-> 0]
        /\ okInv = [k \in Key |-> 0]
        /\ firstOk = [k \in Key |-> 0]

\* a fresh evaluation starts with an EMPTY cache
Start(e) == /\ status[e] # "run"
            /\ status' = [status EXCEPT ![e] = "run"]
            /\ cached' = Cleared(e, cached) /\ okInv' = Cleared(e, okInv) /\ firstOk' = Cleared(e, firstOk)
            /\ UNCHANGED <<count, infF, infA, infN>>

Hit(e, f, a) == /\ status[e] = "run" /\ infN[e] = 0
                /\ f \in CacheableFn /\ cached[<<e, f, a>>] # 0
                /\ UNCHANGED vars

Invoke(e, f, a) == /\ status[e] = "run" /\ infN[e] = 0
                   /\ ~(f \in CacheableFn /\ cached[<<e, f, a>>] # 0)
                   /\ count' = [count EXCEPT ![f] = @ + 1]
                   /\ infF' = [infF EXCEPT ![e] = f] /\ infA' = [infA EXCEPT ![e] = a]
                   /\ infN' = [infN EXCEPT ![e] = count[f] + 1]
                   /\ UNCHANGED <<status, cached, okInv, firstOk>>

NoPending(e) == /\ infF' = [infF EXCEPT ![e] = NoF] /\ infA' = [infA EXCEPT ![e] = NoA]
                /\ infN' = [infN EXCEPT ![e] = 0]

ReturnOk(e) == /\ status[e] = "run" /\ infN[e] # 0
               /\ LET k == <<e, infF[e], infA[e]>> IN
                    /\ cached' = IF infF[e] \in CacheableFn THEN [cached EXCEPT ![k] = infN[e]] ELSE cached
                    /\ okInv' = [okInv EXCEPT ![k] = @ + 1]
                    /\ firstOk' = IF firstOk[k] = 0 THEN [firstOk EXCEPT ![k] = infN[e]] ELSE firstOk
               /\ NoPending(e)
               /\ UNCHANGED <<status, count>>

\* a failed call is not remembered
ReturnFail(e) == /\ status[e] = "run" /\ infN[e] # 0
                 /\ NoPending(e)
                 /\ UNCHANGED <<status, cached, count, okInv, firstOk>>

\* the evaluation returns its outcomes: its cache goes with it
Finish(e) == /\ status[e] = "run" /\ infN[e] = 0
             /\ status' = [status EXCEPT ![e] = "done"]
             /\ cached' = Cleared(e, cached) /\ okInv' = Cleared(e, okInv) /\ firstOk' = Cleared(e, firstOk)
             /\ UNCHANGED <<count, infF, infA, infN>>

\* the future is dropped at any point, also inside a pending call
Drop(e) == /\ status[e] = "run"
           /\ status' = [status EXCEPT ![e] = "dropped"]
           /\ cached' = Cleared(e, cached) /\ okInv' = Cleared(e, okInv) /\ firstOk' = Cleared(e, firstOk)
           /\ NoPending(e)
           /\ UNCHANGED count

Next == \E e \in Ev :
          \/ Start(e) \/ ReturnOk(e) \/ ReturnFail(e) \/ Finish(e) \/ Drop(e)
          \/ \E f \in Fn, a \in Arg : Hit(e, f, a) \/ Invoke(e, f, a)

Spec == Init /\ [][Next]_vars

----------------------------------------------------------------------------
(* what a user relies on *)

\* a cacheable function is invoked (successfully) at most once per distinct (function, argument) in one evaluation
AtMostOnce == \A k \in Key : k[2] \in CacheableFn => okInv[k] <= 1
\* a remembered result is never one that was produced for a different argument or in a different evaluation
NeverReused == \A k1, k2 \in Key : (cached[k1] # 0 /\ cached[k1] = cached[k2] /\ k1[2] = k2[2]) => k1 = k2
\* what is remembered is the result of the first successful invocation; a failure leaves no entry
RemembersFirstSuccess == \A k \in Key : cached[k] # 0 => (okInv[k] >= 1 /\ cached[k] = firstOk[k])
\* nothing is remembered for a function that declares itself non-cacheable
NonCacheableNeverCached == \A k \in Key : k[2] \notin CacheableFn => cached[k] = 0
\* nothing is remembered from one evaluation to the next, nor by an evaluation that was dropped
NothingRemembered == \A k \in Key : status[k[1]] # "run" => cached[k] = 0
Props == AtMostOnce /\ NeverReused /\ RemembersFirstSuccess /\ NonCacheableNeverCached /\ NothingRemembered

----------------------------------------------------------------------------
(* the inductive invariant *)

TypeOK == /\ status \in [Ev -> {"idle", "run", "done", "dropped"}]
          /\ cached \in [Key -> Int] /\ okInv \in [Key -> Int] /\ firstOk \in [Key -> Int]
          /\ count \in [Fn -> Int]
          /\ infF \in [Ev -> Fn \union {NoF}] /\ infA \in [Ev -> Arg \union {NoA}] /\ infN \in [Ev -> Int]
          /\ CacheableFn \subseteq Fn

IndInv ==
  /\ TypeOK
  /\ \A f \in Fn : count[f] >= 0
  /\ \A k \in Key :
       /\ okInv[k] >= 0 /\ firstOk[k] >= 0 /\ firstOk[k] <= count[k[2]]
       /\ (okInv[k] = 0 <=> firstOk[k] = 0)
       /\ (k[2] \in CacheableFn => (cached[k] = firstOk[k] /\ okInv[k] <= 1))
       /\ (k[2] \notin CacheableFn => cached[k] = 0)
       /\ (status[k[1]] # "run" => (cached[k] = 0 /\ okInv[k] = 0 /\ firstOk[k] = 0))
  \* ordinals come from the function's own counter: two different keys of one function never share one
  /\ \A k1, k2 \in Key : (k1 # k2 /\ k1[2] = k2[2] /\ firstOk[k1] # 0) => firstOk[k1] # firstOk[k2]
  \* the pending call
  /\ \A e \in Ev :
       /\ infN[e] >= 0
       /\ (infN[e] = 0 => (infF[e] = NoF /\ infA[e] = NoA))
       /\ (infN[e] # 0 =>
             /\ status[e] = "run" /\ infF[e] \in Fn /\ infA[e] \in Arg
             /\ infN[e] <= count[infF[e]]
             \* it was a miss, and still is: one evaluation is sequential
             /\ (infF[e] \in CacheableFn => cached[<<e, infF[e], infA[e]>>] = 0)
             \* its ordinal is nobody else's
             /\ \A k \in Key : k[2] = infF[e] => firstOk[k] # infN[e]
             /\ \A e2 \in Ev : (e2 # e /\ infN[e2] # 0 /\ infF[e2] = infF[e]) => infN[e2] # infN[e])
=============================================================================
