------------------------------ MODULE MC_Syntax ------------------------------
(***************************************************************************)
(* C06a / C07: every token sequence up to length N over an alphabet with   *)
(* one representative per token class (both spellings where a node has     *)
(* two), accepted and rejected alike.  A sequence is extended only while   *)
(* it is a viable prefix (the reference parser has not failed before the   *)
(* end), so the universe is: all accepted sequences, all sequences         *)
(* rejected at their last token, all sequences rejected at end of input.   *)
(* Each is rendered with single spaces and given to the real parser; the   *)
(* harness compares accept/reject and the tree.                            *)
(***************************************************************************)
EXTENDS RuleText, TLC, Json

CONSTANTS N, Alpha      \* Alpha: "small" | "full"
VARIABLE seq            \* sequence of tokens

T(c, lexeme) == [c |-> c, s |-> S(lexeme)]
K(c) == T(c, c)
Small == << T("IDENT", "a"), T("INT", "i1"), T("STRING", "\"s\""), K("true"), K("none"),
            K("("), K(")"), K("["), K("]"), K("{"), K("}"), K(","), K(":"), K("."), T("INDEX", "0"),
            K("-"), K("!"), K("+"), K("*"), K("&"), K("=="), K("<"), K("and"), K("contains"), K("in"),
            K("if"), K("then"), K("else"), K("int"), K("some") >>
Extra == << K("="), K("!="), K(">"), K(">="), K("<="), K("/"), K("%"), K("|"), K("^"), K("or"),
            K("is_some"), K("is_none"), K("float"), K("dec"), K("date_time"), K("datetime"), K("duration"),
            K("to_upper"), K("uppercase"), K("to_lower"), K("lowercase"), K("trim"), K("round"), K("floor"),
            K("fract"), K("year"), K("month"), K("week"), K("day"), K("hour"), K("minute"), K("second"),
            K("false"), T("HEX", "0x1F"), T("OCT", "0o17"), T("BIN", "0b101"), T("FLOAT", "f1.5"),
            T("DECIMAL", "d2.50"), T("IDENT", "b"), T("INDEX", "12"), K(";"), K("@") >>
Alphabet == IF Alpha = "small" THEN Small ELSE Small \o Extra

Res == Parse(seq)
Viable == LET r == Res IN IF r.ok THEN TRUE ELSE r.at = Len(seq) + 1

\* Alpha = "pairs": instead of all sequences, the operator-interaction templates over EVERY operator
\* spelling:  a o1 b o2 c,  u a o1 b,  a o1 u b,  a . k o1 b,  a o1 b . 0,  if a o1 b then c else d o2 e
BinOps == << K("and"), K("or"), K("="), K("=="), K("!="), K(">"), K("<"), K(">="), K("<="), K("+"), K("-"), K("*"), K("/"), K("%"),
             K("&"), K("|"), K("^"), K("contains"), K("in") >>
UnOps == << K("-"), K("!") >>
Ia == T("IDENT", "a")  Ib == T("IDENT", "b")  Ic == T("IDENT", "c")  Id == T("IDENT", "d")  Ie == T("IDENT", "e")
PairSeqs ==
  {<<Ia, BinOps[i], Ib, BinOps[j], Ic>> : i, j \in 1..Len(BinOps)}
  \cup {<<UnOps[u], Ia, BinOps[i], Ib>> : u \in 1..2, i \in 1..Len(BinOps)}
  \cup {<<Ia, BinOps[i], UnOps[u], Ib>> : u \in 1..2, i \in 1..Len(BinOps)}
  \cup {<<UnOps[u], UnOps[w], Ia>> : u, w \in 1..2}
  \cup {<<Ia, K("."), T("IDENT", "k"), BinOps[i], Ib>> : i \in 1..Len(BinOps)}
  \cup {<<Ia, BinOps[i], Ib, K("."), T("INDEX", "0")>> : i \in 1..Len(BinOps)}
  \cup {<<UnOps[u], Ia, K("."), T("IDENT", "k")>> : u \in 1..2}
  \cup {<<K("if"), Ia, BinOps[i], Ib, K("then"), Ic, K("else"), Id, BinOps[j], Ie>> : i, j \in 1..Len(BinOps)}
  \cup {<<Ia, BinOps[i], K("("), Ib, BinOps[j], Ic, K(")")>> : i, j \in 1..Len(BinOps)}
  \cup {<<Ia, BinOps[i], Ib, BinOps[j], Ic, BinOps[k], Id>> : i, j, k \in {1, 3, 10, 12, 14, 15, 18}}
  \* an `if` whose branches are identical, or are the two boolean literals (nothing is simplified away)
  \cup { <<K("if"), Ia, K("then"), Ib, K("else"), Ib>>, <<K("if"), Ia, K("then"), T("INT", "i1"), K("else"), T("INT", "i1")>>,
         <<K("if"), Ia, K("then"), T("HEX", "0x1"), K("else"), T("BIN", "0b1")>>, <<K("if"), Ia, K("then"), K("true"), K("else"), K("false")>>,
         <<K("if"), Ia, K("then"), K("false"), K("else"), K("true")>>, <<T("INT", "i2"), K("*"), K("("), K("if"), Ia, K("then"), Ib, K("else"), Ib, K(")")>>,
         <<Ia, K("=="), Ia>>, <<Ia, K("-"), Ia>>, <<K("-"), K("-"), Ia>>, <<K("!"), K("!"), Ia>>, <<Ia, K("*"), T("INT", "i1")>>, <<Ia, K("*"), T("INT", "i0")>>,
         <<Ia, K("+"), T("INT", "i0")>>, <<Ia, K("and"), K("true")>>, <<Ia, K("or"), K("false")>>, <<T("FLOAT", "f0"), K("/"), T("FLOAT", "f0")>>,
         <<T("INT", "i2"), K("+"), T("INT", "i3")>>, <<K("-"), T("INT", "i3")>>, <<K("-"), T("FLOAT", "f1.5")>>, <<K("-"), T("DECIMAL", "d2.50")>>, <<K("!"), K("true")>> }
  \* every built-in function keyword, both spellings: kw ( a )  and  kw ( a ) . k
  \cup UNION { { <<K(kw), K("("), Ia, K(")")>>, <<K(kw), K("("), Ia, K(")"), K("."), T("IDENT", "k")>>, <<K(kw), Ia>>, <<K("-"), K(kw), K("("), Ia, K(")")>> }
                : kw \in {"int", "float", "dec", "date_time", "datetime", "duration", "is_some", "some", "is_none", "none", "to_upper", "uppercase",
                           "to_lower", "lowercase", "trim", "round", "floor", "fract", "year", "month", "week", "day", "hour", "minute", "second"} }
  \* identifiers that are reserved words of the library but not tokens of the grammar, or prefixes of literal tokens
  \cup UNION { { <<n>>, <<n, K("("), Ia, K(")")>>, <<Ia, K("."), n>>, <<K(":"), n>>, <<K("{"), n, K(":"), Ia, K("}")>>, <<n, K("."), T("INDEX", "0")>>,
                  <<n, K("("), n, K(")")>>, <<K("if"), n, K("then"), n, K("else"), n>> }
                : n \in {T("IDENT", "key"), T("IDENT", "val"), T("IDENT", "starts"), T("IDENT", "ends"), T("IDENT", "facts"), T("IDENT", "inty"),
                         T("IDENT", "i"), T("IDENT", "f"), T("IDENT", "d"), T("IDENT", "e"), T("IDENT", "x0"), T("IDENT", "nonempty"), T("IDENT", "Round")} }

Init == IF Alpha = "pairs" THEN seq \in {<<>>} \cup {<<BinOps[i]>> : i \in 1..Len(BinOps)} ELSE seq = <<>>
\* in pairs mode the (dummy) one-token states only spread the templates over the workers
Next == IF Alpha = "pairs"
        THEN /\ Len(seq) = 1
             /\ \E s \in {x \in PairSeqs : (Len(x) >= 2 /\ x[2] = seq[1]) \/ ((Len(x) < 2 \/ x[IF Len(x) >= 2 THEN 2 ELSE 1].c \notin {BinOps[i].c : i \in 1..Len(BinOps)}) /\ seq[1].c = "and")} : seq' = s
        ELSE /\ Len(seq) < N /\ Viable
             /\ \E i \in 1..Len(Alphabet) : seq' = Append(seq, Alphabet[i])

RECURSIVE Join(_, _)
Join(ts, i) == IF i > Len(ts) THEN <<>> ELSE (IF i = 1 THEN <<>> ELSE <<32>>) \o ts[i].s \o Join(ts, i + 1)
Text == Join(seq, 1)

\* the lexer reads the rendered text back as the same tokens
LexRoundTrip == LET l == Lex(Text) IN l.ok /\ l.toks = seq
Emit == (seq # <<>> /\ (Alpha = "pairs" => Len(seq) > 1)) => LET r == Res IN
        PrintT("CASE " \o ToJson([text |-> Text, x |-> IF r.ok THEN [ok |-> TRUE, t |-> r.t] ELSE [ok |-> FALSE],
                                   rule |-> RuleFromToks(seq, Text)]))
=============================================================================
