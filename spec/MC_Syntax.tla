------------------------------ MODULE MC_Syntax ------------------------------
(***************************************************************************)
(* C06a / C07: every token sequence up to length N over an alphabet with   *)
(* one representative per token class (both spellings where a node has     *)
(* two), accepted and rejected alike.  A sequence is extended only while   *)
(* it is a viable prefix (the reference parser has not failed before the   *)
(* end), so the universe is: all accepted sequences, all sequences         *)
(* rejected at their last token, all sequences rejected at end of input.   *)
(* Each is rendered with single spaces and given to the real parser; the   *)
(* harness compares accept/reject and the tree.                            *)
(***************************************************************************)
EXTENDS RuleText, TLC, Json

CONSTANTS N, Alpha      \* Alpha: "small" | "full"
VARIABLE seq            \* sequence of tokens

T(c, lexeme) == [c |-> c, s |-> S(lexeme)]
K(c) == T(c, c)
Small == << T("IDENT", "a"), T("INT", "i1"), T("STRING", "\"s\""), K("true"), K("none"),
            K("("), K(")"), K("["), K("]"), K("{"), K("}"), K(","), K(":"), K("."), T("INDEX", "0"),
            K("-"), K("!"), K("+"), K("*"), K("&"), K("=="), K("<"), K("and"), K("contains"), K("in"),
            K("if"), K("then"), K("else"), K("int"), K("some") >>
Extra == << K("="), K("!="), K(">"), K(">="), K("<="), K("/"), K("%"), K("|"), K("^"), K("or"),
            K("is_some"), K("is_none"), K("float"), K("dec"), K("date_time"), K("datetime"), K("duration"),
            K("to_upper"), K("uppercase"), K("to_lower"), K("lowercase"), K("trim"), K("round"), K("floor"),
            K("fract"), K("year"), K("month"), K("week"), K("day"), K("hour"), K("minute"), K("second"),
            K("false"), T("HEX", "0x1F"), T("OCT", "0o17"), T("BIN", "0b101"), T("FLOAT", "f1.5"),
            T("DECIMAL", "d2.50"), T("IDENT", "b"), T("INDEX", "12"), K(";"), K("@") >>
Alphabet == IF Alpha = "small" THEN Small ELSE Small \o Extra

Res == Parse(seq)
Viable == LET r == Res IN IF r.ok THEN TRUE ELSE r.at = Len(seq) + 1

Init == seq = <<>>
Next == /\ Len(seq) < N /\ Viable
        /\ \E i \in 1..Len(Alphabet) : seq' = Append(seq, Alphabet[i])

RECURSIVE Join(_, _)
Join(ts, i) == IF i > Len(ts) THEN <<>> ELSE (IF i = 1 THEN <<>> ELSE <<32>>) \o ts[i].s \o Join(ts, i + 1)
Text == Join(seq, 1)

\* the lexer reads the rendered text back as the same tokens
LexRoundTrip == LET l == Lex(Text) IN l.ok /\ l.toks = seq
Emit == seq # <<>> => LET r == Res IN
        PrintT("CASE " \o ToJson([text |-> Text, x |-> IF r.ok THEN [ok |-> TRUE, t |-> r.t] ELSE [ok |-> FALSE],
                                   rule |-> RuleFromToks(seq, Text)]))
=============================================================================
