----------------------------- MODULE MC_RuleText -----------------------------
(***************************************************************************)
(* C14: a rule's name, description, metadata and expression are extracted  *)
(* exactly.  Universe: texts assembled from a pool of line kinds (comment  *)
(* lines: plain, indented, empty, with trailing blanks; metadata lines:    *)
(* string / int / list / map / nested / duplicate key / @name and          *)
(* @description string and non-string / non-constant; expression lines; a  *)
(* trailing comment after an expression; blank lines), every sequence of   *)
(* at most N lines, with \n or \r\n endings, with or without a final       *)
(* terminator.                                                             *)
(***************************************************************************)
EXTENDS RuleText, TLC, Json

CONSTANT N
VARIABLES ls, style          \* chosen line indices; style 1: \n, 2: \r\n, 3: \n and no final terminator

Q1 == <<34>>
LinePool == <<
  S("// name one"),
  S("  // indented  "),
  S("//"),
  S("//second line") \o <<9>>,
  S("@name: ") \o Q1 \o S("meta name") \o Q1 \o S(";"),
  S("@name: i5;"),
  S("@description: ") \o Q1 \o S("meta desc") \o Q1 \o S(";"),
  S("@description: i7;"),
  S("@prio: i3;"),
  S("@prio: [i1, ") \o Q1 \o S("x") \o Q1 \o S("];"),
  S("@tags: {a: i1, b: [true, none], a: d1.50};"),
  S("@bad: a + i1;"),
  S("a + i1"),
  S("a > i2 // trailing comment"),
  <<>>,
  S("  "),
  S("@x: i1; b"),
  <<160>> \o S("// nbsp indented"),
  S("@l: [i1, [a], i2];"),
  S("@m: {k: [i1, b + i1]};"),
  S("@description: [i7]; a"),
  S("@name: ") \o Q1 \o S("n2") \o Q1 \o S("; @k: i1; c"),
  S("@name: ") \o Q1 \o S("  padded name ") \o <<9>> \o Q1 \o S(";"),
  S("b == ") \o Q1 \o S("x") \o <<13>> \o S("y") \o <<13, 10>> \o S("z") \o Q1,
  \* quotes and backslashes that a line-based scanner could miscount: a string constant ending in an escaped
  \* backslash, a comment holding a lone quote, an expression whose string is one backslash
  S("@p: ") \o Q1 \o S("C:") \o <<92, 92>> \o S("rules") \o <<92, 92>> \o Q1 \o S(";"),
  S("// say ") \o Q1 \o S("hi"),
  S("c == ") \o Q1 \o <<92, 92>> \o Q1,
  \* a string constant spanning lines, one of which looks like a comment line (the line-based comment scan sees it)
  S("b == ") \o Q1 \o S("x") \o <<10>> \o S("// inside") \o <<10>> \o S("y") \o Q1,
  \* pairs of lines that differ only behind a // inside a string constant, or only in the spelling of an equal constant
  S("b == ") \o Q1 \o S("x") \o <<10>> \o S("// other") \o <<10>> \o S("y") \o Q1,
  S("@docs: ") \o Q1 \o S("http://a.b/x") \o Q1 \o S(";"),
  S("@docs: ") \o Q1 \o S("http://a.b/y") \o Q1 \o S(";"),
  S("@w: d0.5;"),
  S("@w: d0.50;"),
  S("@ name") \o <<9>> \o S(": ") \o Q1 \o S("spaced") \o Q1 \o S(" ;") >>

Term == IF style = 2 THEN <<13, 10>> ELSE <<10>>
RECURSIVE Assemble(_)
Assemble(i) == IF i > Len(ls) THEN <<>>
               ELSE LinePool[ls[i]] \o (IF i = Len(ls) /\ style = 3 THEN <<>> ELSE Term) \o Assemble(i + 1)
Text == Assemble(1)

Init == ls = <<>> /\ style \in 1..3
Next == /\ Len(ls) < N /\ \E i \in 1..Len(LinePool) : ls' = Append(ls, i)
        /\ style' = style

\* ---- the property restated on the result, independently of FoldMeta / RuleFromToks ---------
IsC(i) == ls[i] \in {1, 2, 3, 4, 18, 26, 28, 29}                       \* the comment lines of the pool
CTextOf(i) == CASE ls[i] = 1 -> S("name one") [] ls[i] = 2 -> S("indented") [] ls[i] = 3 -> <<>>
                [] ls[i] = 4 -> S("second line") [] ls[i] = 18 -> S("nbsp indented")
                [] ls[i] = 26 -> S("say ") \o Q1 \o S("hi") [] ls[i] = 28 -> S("inside") [] ls[i] = 29 -> S("other")
Comments == LET idx == SelectSeq([i \in 1..Len(ls) |-> i], IsC) IN [j \in 1..Len(idx) |-> CTextOf(idx[j])]

ExtractedP(text, toks, res) ==
  res.k = "ok" =>
  LET items == ParseRuleToks(toks.toks) IN
     \* the expression is what the text after its @key: value; prefix parses to on its own
     /\ \E p \in 1..Len(toks.toks) :
           /\ (p = 1 \/ toks.toks[p - 1].c = ";")
           /\ LET e == Parse(SubSeq(toks.toks, p, Len(toks.toks))) IN e.ok /\ e.t = res.expr
     \* one entry per @key other than name, holding the constant of the LAST occurrence
     /\ \A i \in 1..Len(items.meta) :
           LET key == items.meta[i][1] IN
           (key # NameKey /\ \A j \in (i + 1)..Len(items.meta) : items.meta[j][1] # key)
             => MapGet(res.meta, key) = Flatten(items.meta[i][2]).v
     /\ \A i \in 1..Len(res.meta) :
           \/ \E j \in 1..Len(items.meta) : items.meta[j][1] = res.meta[i][1] /\ res.meta[i][1] # NameKey
           \/ res.meta[i][1] = DescKey
     \* name: @name (last one) if present, otherwise the first comment line, trimmed
     /\ IF \E j \in 1..Len(items.meta) : items.meta[j][1] = NameKey
        THEN LET j == CHOOSE j \in 1..Len(items.meta) : items.meta[j][1] = NameKey /\ \A k \in (j + 1)..Len(items.meta) : items.meta[k][1] # NameKey
             IN res.name = items.meta[j][2].v.cs
        ELSE Comments # <<>> /\ res.name = Comments[1]
     \* description: @description if present (whatever its type), otherwise the remaining comment lines
     /\ IF \E j \in 1..Len(items.meta) : items.meta[j][1] = DescKey THEN TRUE
        ELSE IF Len(Comments) >= 2 THEN MapGet(res.meta, DescKey) = VStr(JoinNL(Tail(Comments), 1))
        ELSE ~MapHas(res.meta, DescKey)
\* one invariant so that the text is lexed once per state
RuleTextOK ==
  LET text == Text
      l == Lex(text)
      res == IF l.ok THEN RuleFromToks(l.toks, text) ELSE ParseError
  IN /\ ExtractedP(text, l, res)
     /\ (res.k = "missing" => Comments = <<>>)
     /\ CommentLines(text) = Comments
     /\ (ls # <<>> => PrintT("CASE " \o ToJson([text |-> text,
                                  x |-> IF l.ok THEN (LET r == Parse(l.toks) IN IF r.ok THEN [ok |-> TRUE, t |-> r.t] ELSE [ok |-> FALSE]) ELSE [ok |-> FALSE],
                                  rule |-> res, key |-> "ruletext"])))
=============================================================================
