------------------------------- MODULE MC_C11 -------------------------------
(***************************************************************************)
(* C11: user-function caching is transparent, per evaluation and per       *)
(* argument.  The functions are COUNTERS: the n-th invocation of f on a    *)
(* returns [a, n], which makes every cache decision observable.            *)
(*   f  cacheable              g  non-cacheable                            *)
(*   h  cacheable, its first invocation fails, later ones succeed           *)
(* Universe: every sequence of at most MaxCalls calls (function, argument) *)
(* spread over rules in every way, evaluated NEvals consecutive times.     *)
(***************************************************************************)
EXTENDS RuleSet, TLC, Json, FiniteSets

CONSTANTS MaxCalls, NArgs, NEvals,
          Scale     \* 0: the exhaustive universe above.  n > 0: ONE long history instead (see ScaleSeq): n distinct
                    \* arguments plus long arguments that differ only at their far end, each called again later
VARIABLE c        \* sequence of [fn, arg, cut]  (cut: this call starts a new rule)

\* distinct-but-similar arguments; argument identity is identity of the value as written: 0.0 and -0.0, 1.0 and
\* 1.00 are different arguments (a function can tell them apart), NaN is one argument
ArgPool == << I(1), St("1"), VFloat(FZero(1)), VFloat(FZero(-1)), Dc(10, 1), Dc(100, 2), VFloat(FNaN),
              VMap(<< <<S("x"), I(1)>>, <<S("y"), I(2)>> >>), VMap(<< <<S("x: i1, y"), I(2)>> >>), VVec(<<I(1)>>),
              Fl(1, 1, 0), St("i1"), Dc(1, 0), VMap(<< <<S("a"), I(1)>> >>), I(2),
              \* instants and durations that differ only below one second
              \* (2015-07-30T03:26:13.25Z, ...13.75Z, 1.25 s, 1.75 s; written as limb literals: this pool is re-evaluated at every use)
              VDT(Z(1, <<17536, 11275, 28293, 8108, 1>>)), VDT(Z(1, <<10624, 26534, 28293, 8108, 1>>)), VDur(Z(1, <<31872, 5378, 1>>)), VDur(Z(1, <<24960, 20637, 1>>)) >>
LongStr(n, last) == VStr([i \in 1..n |-> IF i = n THEN 48 + last ELSE 97 + (i % 7)])
LongVec(n, last) == VVec([i \in 1..n |-> IF i = n THEN I(1000 + last) ELSE I(i)])
ScaleArgs == [i \in 1..Scale |-> I(i)] \o <<LongStr(Scale, 1), LongStr(Scale, 2), LongVec(Scale, 1), LongVec(Scale, 2)>>
Args == IF Scale > 0 THEN ScaleArgs ELSE SubSeq(ArgPool, 1, NArgs)
NA == Len(Args)
\* rule 1 calls the cacheable f on every argument; rule 2 calls it again on the first, a middle and the last plain
\* argument and on the four long ones, then the non-cacheable g twice; rule 3 is f on the first argument alone
ScaleSeq == [i \in 1..NA |-> [fn |-> 1, arg |-> i, cut |-> i = 1]]
            \o <<[fn |-> 1, arg |-> 1, cut |-> TRUE], [fn |-> 1, arg |-> (Scale + 1) \div 2, cut |-> FALSE], [fn |-> 1, arg |-> Scale, cut |-> FALSE]>>
            \o [i \in 1..4 |-> [fn |-> 1, arg |-> Scale + i, cut |-> FALSE]]
            \o <<[fn |-> 2, arg |-> 1, cut |-> FALSE], [fn |-> 2, arg |-> 1, cut |-> FALSE], [fn |-> 1, arg |-> 1, cut |-> TRUE]>>
            \o <<[fn |-> 6, arg |-> 1, cut |-> TRUE], [fn |-> 7, arg |-> 1, cut |-> FALSE], [fn |-> 6, arg |-> 1, cut |-> FALSE], [fn |-> 7, arg |-> 2, cut |-> FALSE]>>
Tagged == <<[r |-> "tagged"]>>
Funcs == << [name |-> S("f"), cacheable |-> TRUE, suspend |-> 0, script |-> Tagged],
            [name |-> S("g"), cacheable |-> FALSE, suspend |-> 0, script |-> Tagged],
            [name |-> S("h"), cacheable |-> TRUE, suspend |-> 0, script |-> <<[r |-> "fail", msg |-> S("h1")], [r |-> "tagged"]>>],
            \* e: its second invocation fails with an error that is itself a library error value
            [name |-> S("e"), cacheable |-> FALSE, suspend |-> 0, script |-> <<[r |-> "tagged"], [r |-> "failtype"], [r |-> "tagged"]>>],
            \* z: cacheable, returns None (a cached None is a cached result like any other)
            [name |-> S("z"), cacheable |-> TRUE, suspend |-> 0, script |-> <<[r |-> "v", v |-> VNone]>>],
            \* two stateless functions (the harness implements them as unit structs, as the documentation's examples are
            \* written): cacheable, pure, different results on the same argument.  Used by the long history only.
            [name |-> S("zdouble"), cacheable |-> TRUE, suspend |-> 0, script |-> <<[r |-> "double"]>>],
            [name |-> S("znegate"), cacheable |-> TRUE, suspend |-> 0, script |-> <<[r |-> "negate"]>>] >>
NF == Len(Funcs)
NFX == 5          \* the exhaustive universe draws from the first five

Init == c = IF Scale > 0 THEN ScaleSeq ELSE <<>>
Next == /\ Scale = 0 /\ Len(c) < MaxCalls
        /\ \E f \in 1..NFX, a \in 1..NArgs, cut \in BOOLEAN :
             /\ (c = <<>> => cut)
             /\ c' = Append(c, [fn |-> f, arg |-> a, cut |-> cut])

\* split the call sequence into rules
RECURSIVE Split(_, _)
Split(i, acc) == IF i > Len(c) THEN acc
                 ELSE IF c[i].cut THEN Split(i + 1, Append(acc, <<c[i]>>))
                 ELSE Split(i + 1, [acc EXCEPT ![Len(acc)] = Append(@, c[i])])
Groups == Split(1, <<>>)
RName(i) == <<114, 48 + i>>
MaxK == IF Scale > 0 THEN NA ELSE MaxCalls
CallE(x) == Call(Funcs[x.fn].name, Val(Args[x.arg]))
\* (the long history ends with one more rule: the NON-cacheable g compared with itself, written identically on both sides)
RS == LET G == Groups IN
      [rules |-> [i \in 1..Len(G) |-> [name |-> RName(i), expr |-> VecE([k \in 1..Len(G[i]) |-> CallE(G[i][k])])]]
                 \o (IF Scale > 0 THEN <<[name |-> S("rq"), expr |-> Bin("eq", Call(S("g"), Val(Args[1])), Call(S("g"), Val(Args[1])))]>> ELSE <<>>),
       funcs |-> Funcs, syms |-> <<>>]
Input == VNone

\* NEvals consecutive evaluations of the same ruleset
RECURSIVE RunN(_, _, _)
RunN(id, gs, acc) == IF id > NEvals THEN [outs |-> acc, gs |-> gs]
                     ELSE LET r == RunEval(RS, StartEval(RS, Input), gs, id) IN RunN(id + 1, r.gs, Append(acc, r.ev.outcomes))
Run == RunN(1, InitGs(RS), <<>>)
Log == Run.gs.calls

\* all call sites: [ev, r, k]; everything below takes the run (outs, gs) as a parameter so that TLC
\* evaluates it once per state
SitesOf(G) == { [ev |-> e, r |-> r, k |-> k] : e \in 1..NEvals, r \in 1..Len(G), k \in 1..MaxK }
Live(run, G, s) == s.k <= Len(G[s.r]) /\ run.outs[s.ev][s.r].o.ok /\ G[s.r][s.k].fn < 5      \* (z's results are not tagged)
SiteFn(G, s) == Funcs[G[s.r][s.k].fn]
SiteArg(G, s) == Args[G[s.r][s.k].arg]
SiteRes(run, s) == run.outs[s.ev][s.r].o.v.xs[s.k]           \* [arg, n]
InvokedOk(l) == FnResult(Funcs[CHOOSE i \in 1..NF : Funcs[i].name = l.f], l.arg, l.n).ok

\* a result is never reused for a different function or argument, nor from another evaluation
KeyedByBothAndFreshP(run, G, live) ==
  \A s \in live :
     /\ SiteRes(run, s).xs[1] = SiteArg(G, s)
     /\ \E i \in 1..Len(run.gs.calls) : LET l == run.gs.calls[i] IN
           l.f = SiteFn(G, s).name /\ l.arg = SiteArg(G, s) /\ I(l.n) = SiteRes(run, s).xs[2] /\ l.ev = s.ev
\* cacheable: at most one successful invocation per evaluation and (function, argument); later calls see it
AtMostOnceAndHitsSeeFirstP(run, G, live) ==
  LET log == run.gs.calls IN
  /\ \A i, j \in 1..Len(log) :
        (i # j /\ log[i].ev = log[j].ev /\ log[i].f = log[j].f /\ log[i].arg = log[j].arg /\ log[i].f \notin {S("g"), S("e")})
          => ~(InvokedOk(log[i]) /\ InvokedOk(log[j]))
  /\ \A s, t \in live : (s.ev = t.ev /\ SiteFn(G, s).cacheable /\ SiteFn(G, s) = SiteFn(G, t) /\ SiteArg(G, s) = SiteArg(G, t))
          => SiteRes(run, s) = SiteRes(run, t)
\* non-cacheable: every call is an invocation of its own
NonCacheableAlwaysInvokedP(run, G, live) ==
  \A s, t \in live : (s # t /\ ~SiteFn(G, s).cacheable /\ SiteFn(G, s) = SiteFn(G, t)) => SiteRes(run, s).xs[2] # SiteRes(run, t).xs[2]
\* failures are not remembered: the only failing outcome is h's first invocation, and it names h
FailuresNamedNotCachedP(run, G) ==
  /\ \A e \in 1..NEvals, r \in 1..Len(G) : ~run.outs[e][r].o.ok =>
        run.outs[e][r].o \in {FnErr(S("h"), S("h1")), FnErr(S("e"), InvalidTypeText)}
  /\ Cardinality({i \in 1..Len(run.gs.calls) : run.gs.calls[i].f = S("h") /\ run.gs.calls[i].n = 1}) <= 1
  \* z (cacheable, result None): at most one invocation per evaluation and argument
  /\ \A i, j \in 1..Len(run.gs.calls) : (i # j /\ run.gs.calls[i].f = S("z") /\ run.gs.calls[j].f = S("z") /\ run.gs.calls[i].ev = run.gs.calls[j].ev)
        => run.gs.calls[i].arg # run.gs.calls[j].arg
MachineRefinesDenP(run) ==
  LET d1 == DenRuleSet(RS, Input, 1, [j \in 1..NF |-> 0]) IN
  /\ run.outs[1] = d1.outcomes
  /\ (NEvals >= 2 => run.outs[2] = DenRuleSet(RS, Input, 2, d1.st.counts).outcomes)

\* one invariant, so that the run is computed once per state; TLC reports which conjunct fails
CachingTransparent ==
  LET run == Run
      G == Groups
      live == {s \in SitesOf(G) : Live(run, G, s)}
  IN /\ KeyedByBothAndFreshP(run, G, live)
     /\ AtMostOnceAndHitsSeeFirstP(run, G, live)
     /\ NonCacheableAlwaysInvokedP(run, G, live)
     /\ FailuresNamedNotCachedP(run, G)
     /\ MachineRefinesDenP(run)
     /\ (c # <<>> => PrintT("CASE " \o ToJson([env |-> [funcs |-> RS.funcs, syms |-> RS.syms], rules |-> RS.rules,
                                  inputs |-> [e \in 1..NEvals |-> Input], schedule |-> [e \in 1..NEvals |-> [a |-> "run", e |-> e]],
                                  x |-> run.outs, calls |-> run.gs.calls, key |-> "C11"])))
=============================================================================
