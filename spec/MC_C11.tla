------------------------------- MODULE MC_C11 -------------------------------
(***************************************************************************)
(* C11: user-function caching is transparent, per evaluation and per       *)
(* argument.  The functions are COUNTERS: the n-th invocation of f on a    *)
(* returns [a, n], which makes every cache decision observable.            *)
(*   f  cacheable              g  non-cacheable                            *)
(*   h  cacheable, its first invocation fails, later ones succeed           *)
(* Universe: every sequence of at most MaxCalls calls (function, argument) *)
(* spread over rules in every way, evaluated NEvals consecutive times.     *)
(***************************************************************************)
EXTENDS RuleSet, TLC, Json, FiniteSets

CONSTANTS MaxCalls, NArgs, NEvals
VARIABLE c        \* sequence of [fn, arg, cut]  (cut: this call starts a new rule)

\* distinct-but-similar arguments; argument identity is identity of the value as written: 0.0 and -0.0, 1.0 and
\* 1.00 are different arguments (a function can tell them apart), NaN is one argument
ArgPool == << I(1), St("1"), VFloat(FZero(1)), VFloat(FZero(-1)), Dc(10, 1), Dc(100, 2), VFloat(FNaN),
              VMap(<< <<S("x"), I(1)>>, <<S("y"), I(2)>> >>), VMap(<< <<S("x: i1, y"), I(2)>> >>), VVec(<<I(1)>>),
              Fl(1, 1, 0), St("i1"), Dc(1, 0), VMap(<< <<S("a"), I(1)>> >>), I(2) >>
Args == SubSeq(ArgPool, 1, NArgs)
Tagged == <<[r |-> "tagged"]>>
Funcs == << [name |-> S("f"), cacheable |-> TRUE, suspend |-> 0, script |-> Tagged],
            [name |-> S("g"), cacheable |-> FALSE, suspend |-> 0, script |-> Tagged],
            [name |-> S("h"), cacheable |-> TRUE, suspend |-> 0, script |-> <<[r |-> "fail", msg |-> S("h1")], [r |-> "tagged"]>>],
            \* e: its second invocation fails with an error that is itself a library error value
            [name |-> S("e"), cacheable |-> FALSE, suspend |-> 0, script |-> <<[r |-> "tagged"], [r |-> "failtype"], [r |-> "tagged"]>>],
            \* z: cacheable, returns None (a cached None is a cached result like any other)
            [name |-> S("z"), cacheable |-> TRUE, suspend |-> 0, script |-> <<[r |-> "v", v |-> VNone]>>] >>
NF == Len(Funcs)

Init == c = <<>>
Next == /\ Len(c) < MaxCalls
        /\ \E f \in 1..NF, a \in 1..NArgs, cut \in BOOLEAN :
             /\ (c = <<>> => cut)
             /\ c' = Append(c, [fn |-> f, arg |-> a, cut |-> cut])

\* split the call sequence into rules
RECURSIVE Split(_, _)
Split(i, acc) == IF i > Len(c) THEN acc
                 ELSE IF c[i].cut THEN Split(i + 1, Append(acc, <<c[i]>>))
                 ELSE Split(i + 1, [acc EXCEPT ![Len(acc)] = Append(@, c[i])])
Groups == Split(1, <<>>)
RName(i) == <<114, 48 + i>>
CallE(x) == Call(Funcs[x.fn].name, Val(Args[x.arg]))
RS == [rules |-> [i \in 1..Len(Groups) |-> [name |-> RName(i), expr |-> VecE([k \in 1..Len(Groups[i]) |-> CallE(Groups[i][k])])]],
       funcs |-> Funcs, syms |-> <<>>]
Input == VNone

\* NEvals consecutive evaluations of the same ruleset
RECURSIVE RunN(_, _, _)
RunN(id, gs, acc) == IF id > NEvals THEN [outs |-> acc, gs |-> gs]
                     ELSE LET r == RunEval(RS, StartEval(RS, Input), gs, id) IN RunN(id + 1, r.gs, Append(acc, r.ev.outcomes))
Run == RunN(1, InitGs(RS), <<>>)
Log == Run.gs.calls

\* all call sites: [ev, r, k]; everything below takes the run (outs, gs) as a parameter so that TLC
\* evaluates it once per state
Sites == { [ev |-> e, r |-> r, k |-> k] : e \in 1..NEvals, r \in 1..Len(Groups), k \in 1..MaxCalls }
Live(run, s) == s.k <= Len(Groups[s.r]) /\ run.outs[s.ev][s.r].o.ok /\ Groups[s.r][s.k].fn # 5      \* (z's results are not tagged)
SiteFn(s) == Funcs[Groups[s.r][s.k].fn]
SiteArg(s) == Args[Groups[s.r][s.k].arg]
SiteRes(run, s) == run.outs[s.ev][s.r].o.v.xs[s.k]           \* [arg, n]
InvokedOk(l) == FnResult(Funcs[CHOOSE i \in 1..NF : Funcs[i].name = l.f], l.arg, l.n).ok

\* a result is never reused for a different function or argument, nor from another evaluation
KeyedByBothAndFreshP(run, live) ==
  \A s \in live :
     /\ SiteRes(run, s).xs[1] = SiteArg(s)
     /\ \E i \in 1..Len(run.gs.calls) : LET l == run.gs.calls[i] IN
           l.f = SiteFn(s).name /\ l.arg = SiteArg(s) /\ I(l.n) = SiteRes(run, s).xs[2] /\ l.ev = s.ev
\* cacheable: at most one successful invocation per evaluation and (function, argument); later calls see it
AtMostOnceAndHitsSeeFirstP(run, live) ==
  LET log == run.gs.calls IN
  /\ \A i, j \in 1..Len(log) :
        (i # j /\ log[i].ev = log[j].ev /\ log[i].f = log[j].f /\ log[i].arg = log[j].arg /\ log[i].f \notin {S("g"), S("e")})
          => ~(InvokedOk(log[i]) /\ InvokedOk(log[j]))
  /\ \A s, t \in live : (s.ev = t.ev /\ SiteFn(s).cacheable /\ SiteFn(s) = SiteFn(t) /\ SiteArg(s) = SiteArg(t))
          => SiteRes(run, s) = SiteRes(run, t)
\* non-cacheable: every call is an invocation of its own
NonCacheableAlwaysInvokedP(run, live) ==
  \A s, t \in live : (s # t /\ ~SiteFn(s).cacheable /\ SiteFn(s) = SiteFn(t)) => SiteRes(run, s).xs[2] # SiteRes(run, t).xs[2]
\* failures are not remembered: the only failing outcome is h's first invocation, and it names h
FailuresNamedNotCachedP(run) ==
  /\ \A e \in 1..NEvals, r \in 1..Len(Groups) : ~run.outs[e][r].o.ok =>
        run.outs[e][r].o \in {FnErr(S("h"), S("h1")), FnErr(S("e"), InvalidTypeText)}
  /\ Cardinality({i \in 1..Len(run.gs.calls) : run.gs.calls[i].f = S("h") /\ run.gs.calls[i].n = 1}) <= 1
  \* z (cacheable, result None): at most one invocation per evaluation and argument
  /\ \A i, j \in 1..Len(run.gs.calls) : (i # j /\ run.gs.calls[i].f = S("z") /\ run.gs.calls[j].f = S("z") /\ run.gs.calls[i].ev = run.gs.calls[j].ev)
        => run.gs.calls[i].arg # run.gs.calls[j].arg
MachineRefinesDenP(run) ==
  LET d1 == DenRuleSet(RS, Input, 1, [j \in 1..NF |-> 0]) IN
  /\ run.outs[1] = d1.outcomes
  /\ (NEvals >= 2 => run.outs[2] = DenRuleSet(RS, Input, 2, d1.st.counts).outcomes)

\* one invariant, so that the run is computed once per state; TLC reports which conjunct fails
CachingTransparent ==
  LET run == Run
      live == {s \in Sites : Live(run, s)}
  IN /\ KeyedByBothAndFreshP(run, live)
     /\ AtMostOnceAndHitsSeeFirstP(run, live)
     /\ NonCacheableAlwaysInvokedP(run, live)
     /\ FailuresNamedNotCachedP(run)
     /\ MachineRefinesDenP(run)
     /\ (c # <<>> => PrintT("CASE " \o ToJson([env |-> [funcs |-> RS.funcs, syms |-> RS.syms], rules |-> RS.rules,
                                  inputs |-> [e \in 1..NEvals |-> Input], schedule |-> [e \in 1..NEvals |-> [a |-> "run", e |-> e]],
                                  x |-> run.outs, calls |-> run.gs.calls, key |-> "C11"])))
=============================================================================
