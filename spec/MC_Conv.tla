------------------------------- MODULE MC_Conv -------------------------------
(***************************************************************************)
(* C17 universe: every target type x every source value: all boundaries    *)
(* +-1 of every integer width, every Value variant as the source of every  *)
(* extraction; 8-bit (and in the thorough tier 16-bit) targets over their  *)
(* whole range +-300; lists and maps of length <= 3 with a non-convertible *)
(* element at each position.                                               *)
(***************************************************************************)
EXTENDS Convert, Pools, TLC, Json

CONSTANT Wide      \* TRUE: 16-bit targets over their whole range as well
VARIABLE c         \* [stage, T, C, v]

Scalars == <<"f64", "bool", "string", "decimal", "datetime", "duration", "value">>
AllTargets == IntTargets \o Scalars
Bounds == UNION { {ZAdd(b, ZFromInt(k)) : k \in {-1, 0, 1}} : b \in UNION {{Lo(IntTargets[i]), Hi(IntTargets[i])} : i \in 1..Len(IntTargets)} }
BoundVals == {VInt(z) : z \in {b \in Bounds : IntInRange(b)}}
SeqSet(s) == {s[i] : i \in 1..Len(s)}
\* long strings with a multi-byte character around byte 64: the offending value must come back whole in the error
LongStrs == {VStr([i \in 1..k |-> 97] \o <<233, 98>>) : k \in 60..66} \cup {VStr([i \in 1..200 |-> 120])}
Sources == BoundVals \cup SeqSet(ValsQ) \cup LongStrs
RangeVals(lo, hi) == {I(n) : n \in lo..hi}

\* containers: elements good (convertible to every integer target), bad kind, bad range
G == I(1)  BK == St("x")  BR == VInt(ZPow2(100))
Elems == {G, BK, BR, I(-1), I(300), VStr([i \in 1..63 |-> 97] \o <<233, 98>>), VNone}      \* (a None element: an entry like any other)
VecSources == {VVec(<<>>)} \cup {VVec(<<a>>) : a \in Elems} \cup {VVec(<<a, b>>) : a, b \in Elems}
              \cup {VVec(<<a, b, d>>) : a, b, d \in {G, BK, BR}}
MapSources == {VMap(<<>>)} \cup {VMap(<< <<S("a"), a>> >>) : a \in Elems} \cup {VMap(<< <<S("a"), a>>, <<S("b"), b>> >>) : a, b \in Elems}
              \cup {VMap(<< <<S("a"), a>>, <<S("b"), b>>, <<S("c"), d>> >>) : a, b, d \in {G, BK, BR}}

\* the way in (From<T> for Value) for the types that have no way back: usize and f32
InjectUsize == {VInt(z) : z \in {ZZero, ZOne, ZFromInt(65535), ZSub(ZPow2(31), ZOne), ZPow2(31), ZPow2(32), ZSub(ZPow2(63), ZOne), ZPow2(63),
                                 ZAdd(ZPow2(63), ZOne), ZSub(ZPow2(64), ZFromInt(2)), ZSub(ZPow2(64), ZOne)}}
InjectF32 == {VFloat(f) : f \in {FZero(1), FZero(-1), FNorm(1, <<3>>, -1), FNorm(-1, <<1>>, -149), FNorm(1, MSub(MPow2(24), <<1>>), 104),
                                 FNorm(1, MFromNat(13421773), -27), FInf(1), FInf(-1), FNaN}}
Init == c \in {[stage |-> 0, C |-> "", T |-> AllTargets[i]] : i \in 1..Len(AllTargets)}
              \cup {[stage |-> 0, C |-> "inject", T |-> "usize"], [stage |-> 0, C |-> "inject", T |-> "f32"]}
              \cup {[stage |-> 0, C |-> cc, T |-> tt] : cc \in {"vec", "hmap", "bmap"}, tt \in {"i8", "u64", "i128", "string"}}
              \cup {[stage |-> 0, C |-> cc, T |-> "value"] : cc \in {"hmap", "bmap"}}
SrcFor(cc) == IF cc.C = "inject" THEN (IF cc.T = "usize" THEN InjectUsize ELSE InjectF32)
              ELSE IF cc.C = "" THEN Sources \cup (IF cc.T \in {"i8", "u8"} THEN RangeVals(-430, 560) ELSE {})
                                 \cup (IF Wide /\ cc.T \in {"i16", "u16"} THEN RangeVals(-33100, 65900) ELSE {})
              ELSE IF cc.C = "vec" THEN VecSources \cup {VMap(<<>>), I(1), VNone} ELSE MapSources \cup {VVec(<<>>), I(1), VNone}
Next == c.stage = 0 /\ \E v \in SrcFor(c) : c' = [stage |-> 1, C |-> c.C, T |-> c.T, v |-> v]

\* injection is total and exact: the Value holds exactly the number that went in
Outcome == IF c.C = "inject" THEN Ok(c.v) ELSE IF c.C = "" THEN ExtractScalar(c.T, c.v) ELSE ExtractContainer(c.C, c.T, c.v)

\* range-exact and kind-exact, stated directly
ConversionExact ==
  c.stage = 1 =>
  LET o == Outcome IN
  /\ (c.C = "" /\ IsIntTarget(c.T) /\ c.v.t = "Int") => (o.ok = (ZLe(Lo(c.T), c.v.n) /\ ZLe(c.v.n, Hi(c.T)))) /\ (~o.ok => o.e = "Overflow")
  /\ (c.C = "" /\ IsIntTarget(c.T) /\ c.v.t # "Int") => o = ErrP("WrongKind", c.v)
  /\ (o.ok => o.v = c.v)                                 \* lossless: what comes out is what went in
  /\ PrintT("CASE " \o ToJson([target |-> c.T, container |-> c.C, src |-> c.v, x |-> o, key |-> "conv"]))
=============================================================================
