--------------------------------- MODULE Str ---------------------------------
(***************************************************************************)
(* Strings are sequences of Unicode code points (TLC strings are atomic).  *)
(* S("abc") converts a TLA+ string literal over printable ASCII.           *)
(* Case mapping and the white-space class are explicit tables over the     *)
(* modelled alphabet: ASCII plus the listed non-ASCII code points; the     *)
(* generators draw only from that alphabet.                                *)
(***************************************************************************)
EXTENDS Integers, Sequences, TLC

CPOf ==
  " " :> 32 @@ "!" :> 33 @@ "\"" :> 34 @@ "#" :> 35 @@ "$" :> 36 @@ "%" :> 37 @@ "&" :> 38 @@ "'" :> 39 @@
  "(" :> 40 @@ ")" :> 41 @@ "*" :> 42 @@ "+" :> 43 @@ "," :> 44 @@ "-" :> 45 @@ "." :> 46 @@ "/" :> 47 @@
  "0" :> 48 @@ "1" :> 49 @@ "2" :> 50 @@ "3" :> 51 @@ "4" :> 52 @@ "5" :> 53 @@ "6" :> 54 @@ "7" :> 55 @@
  "8" :> 56 @@ "9" :> 57 @@ ":" :> 58 @@ ";" :> 59 @@ "<" :> 60 @@ "=" :> 61 @@ ">" :> 62 @@ "?" :> 63 @@
  "@" :> 64 @@ "A" :> 65 @@ "B" :> 66 @@ "C" :> 67 @@ "D" :> 68 @@ "E" :> 69 @@ "F" :> 70 @@ "G" :> 71 @@
  "H" :> 72 @@ "I" :> 73 @@ "J" :> 74 @@ "K" :> 75 @@ "L" :> 76 @@ "M" :> 77 @@ "N" :> 78 @@ "O" :> 79 @@
  "P" :> 80 @@ "Q" :> 81 @@ "R" :> 82 @@ "S" :> 83 @@ "T" :> 84 @@ "U" :> 85 @@ "V" :> 86 @@ "W" :> 87 @@
  "X" :> 88 @@ "Y" :> 89 @@ "Z" :> 90 @@ "[" :> 91 @@ "\\" :> 92 @@ "]" :> 93 @@ "^" :> 94 @@ "_" :> 95 @@
  "`" :> 96 @@ "a" :> 97 @@ "b" :> 98 @@ "c" :> 99 @@ "d" :> 100 @@ "e" :> 101 @@ "f" :> 102 @@ "g" :> 103 @@
  "h" :> 104 @@ "i" :> 105 @@ "j" :> 106 @@ "k" :> 107 @@ "l" :> 108 @@ "m" :> 109 @@ "n" :> 110 @@
  "o" :> 111 @@ "p" :> 112 @@ "q" :> 113 @@ "r" :> 114 @@ "s" :> 115 @@ "t" :> 116 @@ "u" :> 117 @@
  "v" :> 118 @@ "w" :> 119 @@ "x" :> 120 @@ "y" :> 121 @@ "z" :> 122 @@ "{" :> 123 @@ "|" :> 124 @@
  "}" :> 125 @@ "~" :> 126

S(str) == [i \in 1..Len(str) |-> CPOf[SubSeq(str, i, i)]]

\* Unicode White_Space (the complete property, 25 code points)
IsWS(c) == \/ (c >= 9 /\ c <= 13) \/ c = 32 \/ c = 133 \/ c = 160 \/ c = 5760
           \/ (c >= 8192 /\ c <= 8202) \/ c = 8232 \/ c = 8233 \/ c = 8239 \/ c = 8287 \/ c = 12288

RECURSIVE TrimStart(_)
TrimStart(cs) == IF cs # <<>> /\ IsWS(cs[1]) THEN TrimStart(Tail(cs)) ELSE cs
RECURSIVE TrimEnd(_)
TrimEnd(cs) == IF cs # <<>> /\ IsWS(cs[Len(cs)]) THEN TrimEnd(SubSeq(cs, 1, Len(cs) - 1)) ELSE cs
Trim(cs) == TrimEnd(TrimStart(cs))

\* modelled alphabet for case mapping: Basic Latin and Latin-1 Supplement completely (U+0000..U+00FF: sharp s
\* 223 -> "SS", y-diaeresis 255 -> U+0178, micro sign 181 -> U+039C, the multiplication / division signs 215 / 247
\* and the ordinal indicators 170 / 186 caseless), plus caseless code points elsewhere (spaces, U+200B, U+4E2D,
\* U+1F600).  Unicode's default case conversion, which is what the implementation's standard library applies.
UpperCP(c) == IF c >= 97 /\ c <= 122 THEN <<c - 32>>
              ELSE IF c >= 224 /\ c <= 254 /\ c # 247 THEN <<c - 32>>
              ELSE IF c = 223 THEN <<83, 83>> ELSE IF c = 255 THEN <<376>> ELSE IF c = 181 \/ c = 956 THEN <<924>> ELSE <<c>>
LowerCP(c) == IF c >= 65 /\ c <= 90 THEN <<c + 32>>
              ELSE IF c >= 192 /\ c <= 222 /\ c # 215 THEN <<c + 32>>
              ELSE IF c = 376 THEN <<255>> ELSE IF c = 924 THEN <<956>> ELSE <<c>>    \* the images of 255 and 181 under UpperCP
RECURSIVE FlatMap(_, _)
FlatMap(Op(_), cs) == IF cs = <<>> THEN <<>> ELSE Op(cs[1]) \o FlatMap(Op, Tail(cs))
Upper(cs) == FlatMap(UpperCP, cs)
Lower(cs) == FlatMap(LowerCP, cs)
CaseModelled(c) == c < 256 \/ c \in {376, 924, 956, 8203, 12288, 20013, 128512}

IsSub(needle, hay) ==
  \E i \in 0..(Len(hay) - Len(needle)) : SubSeq(hay, i + 1, i + Len(needle)) = needle

\* lexicographic order on code points (= byte order of UTF-8)
RECURSIVE StrLess(_, _)
StrLess(a, b) == IF b = <<>> THEN FALSE ELSE IF a = <<>> THEN TRUE
                 ELSE IF a[1] < b[1] THEN TRUE ELSE IF a[1] > b[1] THEN FALSE
                 ELSE StrLess(Tail(a), Tail(b))

IsDigit(c) == c >= 48 /\ c <= 57
AllDigits(cs) == cs # <<>> /\ \A i \in 1..Len(cs) : IsDigit(cs[i])
Digits(cs) == [i \in 1..Len(cs) |-> cs[i] - 48]
=============================================================================
