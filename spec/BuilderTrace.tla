----------------------------- MODULE BuilderTrace -----------------------------
(***************************************************************************)
(* Trace validation for C15: seeded random sequences of builder calls      *)
(* (length up to 30 over pools of 6 rule names, 8 function names incl.     *)
(* reserved and ill-formed ones, 3 symbols) made against the real builder. *)
(* Record: [ops |-> <<op with observed result x...>>, probes |-> <<rule>>, *)
(*          outcomes |-> <<[rule, o]...>>]                                 *)
(* Every call's observed result must be what the builder actions of        *)
(* RuleSet.tla prescribe in the state reached so far, and the outcomes of  *)
(* the built ruleset (accepted rules in order, then one probe per function *)
(* name and symbol) must be those of the specification.                    *)
(***************************************************************************)
EXTENDS RuleSet, TraceCommon, TLC, Json, IOUtils

Rec == ndJsonDeserialize(IOEnv.TRACE)
VARIABLE i
Chunk == 10
Init == i \in {1 + k * Chunk : k \in 0..((Len(Rec) - 1) \div Chunk)}
Next == i % Chunk # 0 /\ i < Len(Rec) /\ i' = i + 1

BApply(b, o) ==
  CASE o.op = "with_rule" -> WithRule(b, o.rule)
    [] o.op = "with_rules" -> WithRules(b, o.rules)
    [] o.op = "with_function" -> WithFunction(b, o.f)
    [] o.op = "with_functions" -> WithFunctions(b, o.fs)
    [] o.op = "with_symbol" -> WithSymbol(b, o.n, o.v)
    [] o.op = "with_symbols" -> WithSymbols(b, o.tab)

ResultMatches(x, obs) == IF x.ok THEN obs.ok
                         ELSE ~obs.ok /\ obs.n = x.n /\ obs.variant = (CASE x.e = "DupRule" -> "DuplicateRuleName"
                                                                         [] x.e = "DupFn" -> "DuplicateFunctionName"
                                                                         [] x.e = "BadFnName" -> "InvalidFunctionName")
RECURSIVE Fold(_, _, _)
Fold(ops, k, b) == IF k > Len(ops) THEN [ok |-> TRUE, b |-> b]
                   ELSE LET x == BApply(b, ops[k]) IN
                        IF ResultMatches(x, ops[k].x) THEN Fold(ops, k + 1, x.b) ELSE [ok |-> FALSE, at |-> k]

Accepted ==
  LET r == Rec[i]
      f == Fold(r.ops, 1, EmptyBuilder)
  IN /\ f.ok
     /\ LET final == WithRules(f.b, r.probes).b
            d == DenRuleSet(final, VNone, 1, [j \in 1..Len(final.funcs) |-> 0])
        IN /\ Len(r.outcomes) = Len(d.outcomes)
           /\ \A k \in 1..Len(d.outcomes) : r.outcomes[k].rule = d.outcomes[k].rule /\ ObsMatches(d.outcomes[k].o, r.outcomes[k].o)
=============================================================================
