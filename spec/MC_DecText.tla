------------------------------ MODULE MC_DecText ------------------------------
(***************************************************************************)
(* `dec("...")`: the text form of decimals.  Universe: sign x integer      *)
(* digits x point x fractional digits x trailer, each from a list that     *)
(* holds the thresholds of the reader (the 64-bit and 96-bit registers,    *)
(* 28 fractional digits, the rounding digit, underscores at and around the *)
(* rounding position) and malformed forms; the full product.  The reader   *)
(* (Decimal.tla, DecFromStr) is a transcription of the library's; the      *)
(* examples restate a few results independently.                           *)
(***************************************************************************)
EXTENDS Ops, TLC, Json

CONSTANT NT       \* how many of the trailers are used (1..8)
VARIABLE c

RECURSIVE Rep(_, _)
Rep(t, n) == IF n = 0 THEN <<>> ELSE t \o Rep(t, n - 1)
Signs == << <<>>, S("+"), S("-"), S("--"), S("+-"), S(" ") >>
Ints == << <<>>, S("0"), S("1"), S("00"), S("15"), S("18446744073709551"), S("184467440737095516"), S("1844674407370955160"), S("1844674407370955161"),
           S("18446744073709551615"), S("79228162514264337593543950335"), S("79228162514264337593543950336"), S("7922816251426433759354395033"),
           S("79228162514264337593543950334"), S("792281625142643375935439503350"), S("1_000"), S("_1"), S("1_"), S("1__0"), Rep(S("0"), 40) \o S("7"), Rep(S("9"), 30) >>
Points == << <<>>, S("."), S(".."), S("_."), S("._") >>
Z27 == Rep(S("0"), 27)
Fracs == << <<>>, S("5"), S("50"), S("05"), Z27 \o S("1"), Z27 \o S("15"), Z27 \o S("14"), Z27 \o S("149"), Z27 \o S("1_9"), Z27 \o S("1__9"), Z27 \o S("1_"), Z27 \o S("_15"),
            Z27 \o S("05"), Z27 \o S("04"), Z27 \o S("95"), Rep(S("9"), 28) \o S("5"), Rep(S("9"), 29), Rep(S("3"), 40), S("5_"), S("_5"), S("5__5"),
            S("12345678901234567890123456785"), S("1234567890123456789012345678_5"), S("5") \o Rep(S("0"), 30), Z27 \o S("1x"), Z27 \o S("15x"), Z27 \o S("15.") >>
Tails == << <<>>, S("_"), S("x"), S("e5"), S("E-2"), S(" "), S("."), <<233>> >>

Init == c \in {[stage |-> 0, s |-> s, i |-> i] : s \in 1..Len(Signs), i \in 1..Len(Ints)}
Next == /\ c.stage = 0
        /\ \E p \in 1..Len(Points), f \in 1..Len(Fracs), t \in 1..NT :
             c' = [stage |-> 1, text |-> Signs[c.s] \o Ints[c.i] \o Points[p] \o Fracs[f] \o Tails[t]]

DX(sgn, digits, sc) == [k |-> "ok", n |-> Z(sgn, MFromDigits(digits)), sc |-> sc, exact |-> TRUE]
Examples == <<
  [s |-> S("1.50"), v |-> DX(1, <<1,5,0>>, 2)], [s |-> S("-2.5"), v |-> DX(-1, <<2,5>>, 1)], [s |-> S(".5"), v |-> DX(1, <<5>>, 1)],
  [s |-> S("5."), v |-> DX(1, <<5>>, 0)], [s |-> S("+1_000"), v |-> DX(1, <<1,0,0,0>>, 0)], [s |-> S("00.10"), v |-> DX(1, <<1,0>>, 2)],
  [s |-> S("79228162514264337593543950335"), v |-> [k |-> "ok", n |-> Z(1, DecMaxM), sc |-> 0, exact |-> TRUE]],
  [s |-> S("79228162514264337593543950336"), v |-> DInv],
  [s |-> S("0.00000000000000000000000000005"), v |-> [DX(1, <<1>>, 28) EXCEPT !.exact = FALSE]],           \* the 29th digit rounds half up
  [s |-> S("0.00000000000000000000000000004"), v |-> [k |-> "ok", n |-> Z(1, <<>>), sc |-> 28, exact |-> FALSE]],
  [s |-> S("."), v |-> DInv], [s |-> S(""), v |-> DInv], [s |-> S("-"), v |-> DInv], [s |-> S("_1"), v |-> DInv], [s |-> S("1..2"), v |-> DInv],
  [s |-> S("abc"), v |-> DInv], [s |-> S("1 "), v |-> DInv] >>
ExamplesAgree == (c.stage = 0 /\ c.s = 1 /\ c.i = 1) => \A i \in 1..Len(Examples) : DecFromStr(Examples[i].s) = Examples[i].v

TextOK == c.stage = 1 =>
  LET d == DecFromStr(c.text)
      o == Unary("dec", VStr(c.text))
  IN /\ (d.k = "ok" => DFits(d.n.m) /\ d.sc <= 28 /\ o.ok /\ o.v = VDec(d.n, d.sc) /\ (d.exact <=> "ap" \notin DOMAIN o))
     /\ PrintT("CASE " \o ToJson([k |-> "dec", a |-> <<VStr(c.text)>>, x |-> o]))
=============================================================================
