-------------------------------- MODULE Float --------------------------------
(***************************************************************************)
(* IEEE-754 binary64 on exact triples.  A float is a record                *)
(*   [c |-> "fin"|"inf"|"nan", s |-> 1|-1, m |-> magnitude, e |-> int]      *)
(* denoting s * m * 2^e; in normal form m is odd, or m = <<>> and e = 0     *)
(* (a signed zero).  For "inf" and "nan" m = <<>> and e = 0; "nan" has s=1. *)
(* Every arithmetic operation computes the exact rational result with      *)
(* BigInt and rounds it once, to nearest, ties to even, to 53 significant  *)
(* bits with exponent range of binary64 (gradual underflow, overflow to    *)
(* infinity) - i.e. it is the IEEE-754 definition, not an approximation.   *)
(***************************************************************************)
EXTENDS BigInt

FNaN == [c |-> "nan", s |-> 1, m |-> <<>>, e |-> 0]
FInf(s) == [c |-> "inf", s |-> s, m |-> <<>>, e |-> 0]
FZero(s) == [c |-> "fin", s |-> s, m |-> <<>>, e |-> 0]
FIsZero(f) == f.c = "fin" /\ f.m = <<>>
FIsNaN(f) == f.c = "nan"
FIsInf(f) == f.c = "inf"
FIsFin(f) == f.c = "fin"

\* normal form of s * M * 2^E   (M any magnitude)
FNorm(s, M, E) == IF M = <<>> THEN FZero(s)
                  ELSE LET tz == MTz(M) IN [c |-> "fin", s |-> s, m |-> MShr(M, tz), e |-> E + tz]

\* M / 2^k rounded to nearest integer, ties to even (k >= 1)
RoundShift(M, k) ==
  LET q == MShr(M, k)
      half == MBit(M, k - 1)
      sticky == ~MLowZero(M, k - 1)
  IN IF half = 1 /\ (sticky \/ MIsOdd(q)) THEN MAdd(q, <<1>>) ELSE q

\* round the exact value s * M * 2^E (M # 0) to binary64
FRound(s, M, E) ==
  LET L == MBitLen(M)
      lead == L + E - 1                          \* exponent of the leading bit
      q == IF lead - 52 > -1074 THEN lead - 52 ELSE -1074   \* exponent of the result's ulp
  IN IF E >= q THEN (IF lead > 1023 THEN FInf(s) ELSE FNorm(s, M, E))
     ELSE LET Mr == RoundShift(M, q - E) IN
          IF Mr = <<>> THEN FZero(s)
          ELSE IF MBitLen(Mr) + q - 1 > 1023 THEN FInf(s) ELSE FNorm(s, Mr, q)

\* is the exact value s*M*2^E representable without rounding?
FExact(s, M, E) == LET n == FNorm(s, M, E) IN
  \/ M = <<>>
  \/ /\ MBitLen(n.m) <= 53 /\ n.e >= -1074 /\ MBitLen(n.m) + n.e - 1 <= 1023

FNeg(f) == IF f.c = "nan" THEN f ELSE [f EXCEPT !.s = -f.s]
FAbs(f) == IF f.c = "nan" THEN f ELSE [f EXCEPT !.s = 1]

\* exact sum of two finite floats as a signed (Z, exponent) pair
FSumExact(a, b) ==
  LET e == IF a.e < b.e THEN a.e ELSE b.e
      za == Z(a.s, MShl(a.m, a.e - e))
      zb == Z(b.s, MShl(b.m, b.e - e))
  IN <<ZAdd(za, zb), e>>

FAdd(a, b) ==
  IF a.c = "nan" \/ b.c = "nan" THEN FNaN
  ELSE IF a.c = "inf" THEN (IF b.c = "inf" /\ b.s # a.s THEN FNaN ELSE a)
  ELSE IF b.c = "inf" THEN b
  ELSE IF a.m = <<>> THEN (IF b.m = <<>> THEN FZero(IF a.s = -1 /\ b.s = -1 THEN -1 ELSE 1) ELSE b)
  ELSE IF b.m = <<>> THEN a
  ELSE LET x == FSumExact(a, b) IN
       IF x[1].s = 0 THEN FZero(1) ELSE FRound(x[1].s, x[1].m, x[2])
FSub(a, b) == FAdd(a, FNeg(b))

FMul(a, b) ==
  IF a.c = "nan" \/ b.c = "nan" THEN FNaN
  ELSE IF a.c = "inf" \/ b.c = "inf" THEN
       (IF FIsZero(a) \/ FIsZero(b) THEN FNaN ELSE FInf(a.s * b.s))
  ELSE IF a.m = <<>> \/ b.m = <<>> THEN FZero(a.s * b.s)
  ELSE FRound(a.s * b.s, MMul(a.m, b.m), a.e + b.e)

\* correctly rounded s * N / D for magnitudes N, D # 0, times 2^E
FRoundRatio(s, N, D, E) ==
  LET k0 == 56 + MBitLen(D) - MBitLen(N)
      k == IF k0 > 0 THEN k0 ELSE 0
      qr == MDivMod(MShl(N, k), D)
      M == IF qr[2] = <<>> THEN MShl(qr[1], 1) ELSE MAdd(MShl(qr[1], 1), <<1>>)   \* sticky bit
  IN FRound(s, M, E - k - 1)

FDiv(a, b) ==
  IF a.c = "nan" \/ b.c = "nan" THEN FNaN
  ELSE IF a.c = "inf" THEN (IF b.c = "inf" THEN FNaN ELSE FInf(a.s * b.s))
  ELSE IF b.c = "inf" THEN FZero(a.s * b.s)
  ELSE IF b.m = <<>> THEN (IF a.m = <<>> THEN FNaN ELSE FInf(a.s * b.s))
  ELSE IF a.m = <<>> THEN FZero(a.s * b.s)
  ELSE FRoundRatio(a.s * b.s, a.m, b.m, a.e - b.e)

\* C fmod / Rust %: exact, sign of the dividend
FRem(a, b) ==
  IF a.c = "nan" \/ b.c = "nan" THEN FNaN
  ELSE IF a.c = "inf" THEN FNaN
  ELSE IF b.c = "inf" THEN a
  ELSE IF b.m = <<>> THEN FNaN
  ELSE IF a.m = <<>> THEN a
  ELSE LET e == IF a.e < b.e THEN a.e ELSE b.e
           A == MShl(a.m, a.e - e)
           D == MShl(b.m, b.e - e)
           r == MDivMod(A, D)[2]
       IN FNorm(a.s, r, e)

\* "lt" | "eq" | "gt" | "un"
FCmp(a, b) ==
  IF a.c = "nan" \/ b.c = "nan" THEN "un"
  ELSE IF FIsZero(a) /\ FIsZero(b) THEN "eq"
  ELSE IF a.c = "inf" /\ b.c = "inf" THEN (IF a.s = b.s THEN "eq" ELSE IF a.s < b.s THEN "lt" ELSE "gt")
  ELSE IF a.c = "inf" THEN (IF a.s = 1 THEN "gt" ELSE "lt")
  ELSE IF b.c = "inf" THEN (IF b.s = 1 THEN "lt" ELSE "gt")
  ELSE LET d == FSumExact(a, FNeg(b))[1].s IN
       IF d = 0 THEN "eq" ELSE IF d < 0 THEN "lt" ELSE "gt"
FEq(a, b) == FCmp(a, b) = "eq"

\* integer part toward zero of a finite float, as a signed BigInt
FTruncZ(f) == IF f.m = <<>> THEN ZZero
              ELSE IF f.e >= 0 THEN Z(f.s, MShl(f.m, f.e)) ELSE Z(f.s, MShr(f.m, -f.e))
FIsInt(f) == f.c = "fin" /\ f.e >= 0
FFromZ(z) == IF z.s = 0 THEN FZero(1) ELSE FRound(z.s, z.m, 0)      \* nearest double of an integer
FFromZExact(z) == IF z.s = 0 THEN FZero(1) ELSE FNorm(z.s, z.m, 0)

FTrunc(f) == IF f.c # "fin" \/ f.e >= 0 THEN f
             ELSE LET z == FTruncZ(f) IN IF z.s = 0 THEN FZero(f.s) ELSE FNorm(z.s, z.m, 0)
FFloor(f) == IF f.c # "fin" \/ f.e >= 0 THEN f
             ELSE LET z == FTruncZ(f) IN
                  IF f.s = 1 THEN (IF z.s = 0 THEN FZero(1) ELSE FNorm(1, z.m, 0))
                  ELSE FNorm(-1, MAdd(z.m, <<1>>), 0)
\* Rust f64::round: half away from zero
FRoundHalfAway(f) ==
  IF f.c # "fin" \/ f.e >= 0 THEN f
  ELSE LET z == FTruncZ(f)
           half == MBit(f.m, -f.e - 1) = 1            \* fractional part >= 1/2
       IN IF half THEN FNorm(f.s, MAdd(z.m, <<1>>), 0)
          ELSE IF z.s = 0 THEN FZero(f.s) ELSE FNorm(f.s, z.m, 0)
\* Rust f64::fract = x - trunc(x)   (NaN for infinities)
FFract(f) == IF f.c = "nan" THEN FNaN ELSE IF f.c = "inf" THEN FNaN ELSE FSub(f, FTrunc(f))

\* nearest double of s * N * 10^k  (N magnitude, k any integer): literals and casts
FFromDecimal(s, N, k) ==
  IF N = <<>> THEN FZero(s)
  ELSE IF k >= 0 THEN FRound(s, MMul(N, MPow10(k)), 0)
  ELSE FRoundRatio(s, N, MPow10(-k), 0)

\* the neighbours of a finite double (used for 1-ulp tolerances)
FUlpExp(f) == LET lead == MBitLen(f.m) + f.e - 1 IN IF lead - 52 > -1074 THEN lead - 52 ELSE -1074
=============================================================================
