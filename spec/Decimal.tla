------------------------------- MODULE Decimal -------------------------------
(***************************************************************************)
(* 96-bit decimal arithmetic (the Decimal value type): a decimal is a pair *)
(* (n, sc) of a signed BigInt mantissa with |n| < 2^96 and a scale 0..28,  *)
(* denoting n / 10^sc.  Operations first compute the exact rational result *)
(* and then fit it: if the exact result is representable it is the result  *)
(* (exact = TRUE); otherwise the result is the exact value rounded half to *)
(* even at the largest scale at which it fits (exact = FALSE), or          *)
(* "overflow" when even at scale 0 the rounded value exceeds 96 bits.      *)
(* Results are records [k |-> "ok", n, sc, exact] or [k |-> "overflow"].   *)
(***************************************************************************)
EXTENDS BigInt

DecMaxM == MSub(MPow2(96), <<1>>)        \* 79228162514264337593543950335
DecMaxScale == 28
DFits(m) == MCmp(m, DecMaxM) <= 0

\* m / 10^k rounded half to even (k >= 1)
DRoundDiv(m, k) ==
  LET p == MPow10(k)
      qr == MDivMod(m, p)
      twice == MShl(qr[2], 1)
      c == MCmp(twice, p)
  IN IF c > 0 \/ (c = 0 /\ MIsOdd(qr[1])) THEN MAdd(qr[1], <<1>>) ELSE qr[1]

\* strip trailing decimal zeros of (m, sc) down to scale >= lo
RECURSIVE DStrip(_, _, _)
DStrip(m, sc, lo) ==
  IF sc <= lo \/ m = <<>> THEN <<m, IF m = <<>> THEN (IF sc < lo THEN sc ELSE lo) ELSE sc>>
  ELSE LET qr == MDivSmall(m, 10) IN
       IF qr[2] = 0 THEN DStrip(qr[1], sc - 1, lo) ELSE <<m, sc>>

\* fit the exact value s * m / 10^sc (sc may exceed 28, m may exceed 96 bits)
RECURSIVE DFitRound(_, _, _, _)
DFitRound(s, m, sc, target) == \* round at scale `target` (target <= sc), lowering it until it fits
  LET r == IF target = sc THEN m ELSE DRoundDiv(m, sc - target) IN
  IF DFits(r) THEN [k |-> "ok", n |-> Z(s, r), sc |-> target, exact |-> FALSE]
  ELSE IF target = 0 THEN [k |-> "overflow"]
  ELSE DFitRound(s, m, sc, target - 1)

DFit(s, m, sc) ==
  LET st == DStrip(m, sc, 0)                       \* canonical (fewest digits) form
  IN IF st[2] <= DecMaxScale /\ DFits(st[1])
     THEN \* exactly representable; keep as much of the written scale as fits
          LET keep == IF sc <= DecMaxScale /\ DFits(m) THEN <<m, sc>> ELSE st
          IN [k |-> "ok", n |-> Z(s, keep[1]), sc |-> keep[2], exact |-> TRUE]
     ELSE DFitRound(s, m, sc, IF sc < DecMaxScale THEN sc ELSE DecMaxScale)

\* align two decimals to the larger scale
DAlign(a, asc, b, bsc) ==
  IF asc >= bsc THEN <<a, ZMul(b, Z(1, MPow10(asc - bsc))), asc>>
  ELSE <<ZMul(a, Z(1, MPow10(bsc - asc))), b, bsc>>

DAdd(a, asc, b, bsc) == LET x == DAlign(a, asc, b, bsc) s == ZAdd(x[1], x[2]) IN DFit(s.s, s.m, x[3])
DSub(a, asc, b, bsc) == DAdd(a, asc, ZNeg(b), bsc)
DMul(a, asc, b, bsc) == LET p == ZMul(a, b) IN DFit(p.s, p.m, asc + bsc)
DCmp(a, asc, b, bsc) == LET x == DAlign(a, asc, b, bsc) IN ZCmp(x[1], x[2])

\* truncating remainder: sign of the dividend, always exact (b # 0)
DRem(a, asc, b, bsc) == LET x == DAlign(a, asc, b, bsc) r == ZRemT(x[1], x[2]) IN DFit(r.s, r.m, x[3])

\* division (b # 0): exact when the quotient terminates within the type, else rounded
DDiv(a, asc, b, bsc) ==
  IF a.s = 0 THEN [k |-> "ok", n |-> ZZero, sc |-> 0, exact |-> TRUE]
  ELSE
  LET \* a/10^asc / (b/10^bsc) = (a * 10^(bsc + 30)) / b  / 10^(asc + 30)
      num == MMul(a.m, MPow10(bsc + 30))
      qr == MDivMod(num, b.m)
      s == a.s * b.s
  IN IF qr[2] = <<>> THEN DFit(s, qr[1], asc + 30)
     ELSE \* non-terminating (within 30 extra digits): round; sticky digit keeps ties honest
          LET m == MAdd(MMulSmall(qr[1], 10), <<1>>)
              r == DFitRound(s, m, asc + 31, DecMaxScale)
          IN r

\* integer part toward zero
DTruncZ(a, asc) == IF asc = 0 THEN a ELSE Z(a.s, MDivMod(a.m, MPow10(asc))[1])
DFloorZ(a, asc) ==
  IF asc = 0 THEN a
  ELSE LET qr == MDivMod(a.m, MPow10(asc)) IN
       IF a.s >= 0 \/ qr[2] = <<>> THEN Z(a.s, qr[1]) ELSE Z(-1, MAdd(qr[1], <<1>>))
DRoundEvenZ(a, asc) == IF asc = 0 THEN a ELSE Z(a.s, DRoundDiv(a.m, asc))
\* fractional part, sign of the operand, same scale
DFractZ(a, asc) == IF asc = 0 THEN ZZero ELSE Z(a.s, MDivMod(a.m, MPow10(asc))[2])

----------------------------------------------------------------------------
(* Conversion of a binary floating-point number M * 2^E2 (M the 53-bit     *)
(* significand as an integer, hidden bit included; E2 the exponent of its  *)
(* last bit) to a Decimal.  This is a transcription, loop for loop, of the *)
(* conversion the Decimal library performs (a sequence of exact and lossy  *)
(* integer steps on a 96-bit register whose result is NOT always the       *)
(* nearest decimal: halvings that drop a bit, division by 5 that           *)
(* truncates, digit-by-digit half-up rounding down to 52 bits of           *)
(* significand).  The result is what `dec(Float)` denotes, exactly.        *)
(* Result: [k |-> "some", m, sc] or [k |-> "none"] (out of range).         *)
(***************************************************************************)
P95 == MPow2(95)
P96 == MPow2(96)
P52 == MPow2(52)

\* phase 1: 2^e = 5^-e * 10^e for e < 0: absorb the factor 5^e5 (e5 > 0) into the register
RECURSIVE B2D1(_, _, _)
B2D1(b, e5, e10) ==
  IF e5 <= 0 THEN <<b, e5, e10>>
  ELSE IF ~MIsOdd(b) THEN B2D1(MShr(b, 1), e5 - 1, e10 + 1)              \* exact halving
  ELSE LET t == MMulSmall(b, 5) IN
       IF MCmp(t, P96) < 0 THEN B2D1(t, e5 - 1, e10)                      \* exact multiplication by 5
       ELSE B2D1(MShr(b, 1), e5 - 1, e10 + 1)                             \* would overflow: halve, losing the low bit

\* phase 2: e5 < 0 (a factor 2^-e5 to absorb): double while there is room, else divide by 5 (truncating)
RECURSIVE B2D2(_, _, _)
B2D2(b, e5, e10) ==
  IF e5 >= 0 THEN [k |-> "go", b |-> b, e10 |-> e10]
  ELSE IF MCmp(b, P95) < 0 THEN B2D2(MShl(b, 1), e5 + 1, e10 - 1)
  ELSE IF e10 * 2 > -e5 THEN [k |-> "none"]
  ELSE B2D2(MDivSmall(b, 5)[1], e5 + 1, e10)

\* phase 3: bring a positive power of ten into the register
RECURSIVE B2D3(_, _)
B2D3(b, e10) ==
  IF e10 <= 0 THEN [k |-> "go", b |-> b, e10 |-> e10]
  ELSE LET t == MMulSmall(b, 10) IN
       IF MCmp(t, P96) < 0 THEN B2D3(t, e10 - 1) ELSE [k |-> "none"]

\* phase 4: scale larger than 28: divide by ten, rounding the dropped digit half up, one digit at a time
RECURSIVE B2D4(_, _)
B2D4(b, e10) ==
  IF e10 >= -DecMaxScale THEN <<b, e10>>
  ELSE LET qr == MDivSmall(b, 10) IN
       IF qr[1] = <<>> THEN <<qr[1], 0>>                                   \* underflow to zero
       ELSE B2D4(IF qr[2] >= 5 THEN MAdd(qr[1], <<1>>) ELSE qr[1], e10 + 1)

\* phase 5: drop digits beyond the precision of a double (register down to 52 bits), same digit-wise rounding
RECURSIVE B2D5(_, _)
B2D5(b, e10) ==
  IF e10 >= 0 \/ MCmp(b, P52) < 0 THEN <<b, e10>>
  ELSE LET qr == MDivSmall(b, 10) IN
       B2D5(IF qr[2] >= 5 THEN MAdd(qr[1], <<1>>) ELSE qr[1], e10 + 1)

\* phase 6: remove trailing decimal zeros
RECURSIVE B2D6(_, _)
B2D6(b, e10) ==
  IF e10 >= 0 THEN <<b, e10>>
  ELSE LET qr == MDivSmall(b, 10) IN
       IF qr[2] = 0 THEN B2D6(qr[1], e10 + 1) ELSE <<b, e10>>

Base2ToDecimal(M, E2) ==
  LET p1 == B2D1(M, -E2, E2)
      p2 == B2D2(p1[1], p1[2], p1[3])
  IN IF p2.k = "none" THEN p2
     ELSE LET p3 == B2D3(p2.b, p2.e10) IN
          IF p3.k = "none" THEN p3
          ELSE LET p4 == B2D4(p3.b, p3.e10)
                   p5 == B2D5(p4[1], p4[2])
                   p6 == B2D6(p5[1], p5[2])
               IN [k |-> "some", m |-> p6[1], sc |-> -p6[2]]

----------------------------------------------------------------------------
(* Text to Decimal: the library's reader, transcribed as the state machine  *)
(* it is.  [+-]? then digits, at most one point, underscores (only after a *)
(* digit).  Digits accumulate in a 64-bit register and, once that is       *)
(* nearly full, in a 96-bit one; at most 28 fractional digits are kept and  *)
(* the FIRST dropped digit alone decides rounding (half up, not half even; *)
(* later digits are only checked for being digits); a mantissa that would  *)
(* overflow 96 bits after the point is rounded there instead.  The two     *)
(* registers treat an underscore at the rounding position differently      *)
(* (the narrow one reads it as the digit 0), which is transcribed too.     *)
(* Result: [k |-> "ok", n, sc, exact] or [k |-> "invalid"]; exact = FALSE  *)
(* when digits were dropped (the rounding path).                           *)
(***************************************************************************)
DInv == [k |-> "invalid"]
DOkD(neg, data, scale) == [k |-> "ok", n |-> Z(IF neg THEN -1 ELSE 1, data), sc |-> scale, exact |-> TRUE]
\* a result that went through rounding: the text has more digits than the type holds.  WHICH neighbour is chosen (and at
\* which scale it is written) is the library's choice; users of this result compare within one unit of the last place
DOkR(neg, data, scale) == [k |-> "ok", n |-> Z(IF neg THEN -1 ELSE 1, data), sc |-> scale, exact |-> FALSE]
WillOverflowU64 == MSub(MDivSmall(MSub(MPow2(64), <<1>>), 10)[1], MFromNat(255))
DIsDigit(c) == c >= 48 /\ c <= 57
PushDigit(data, c) == MAdd(MMulSmall(data, 10), MFromNat(c - 48))

RECURSIVE RestOK(_, _, _)                 \* after the rounding position: digits and underscores, one point if none was seen
RestOK(cs, r, seen) == IF r > Len(cs) THEN TRUE
                       ELSE IF DIsDigit(cs[r]) \/ cs[r] = 95 THEN RestOK(cs, r + 1, seen)
                       ELSE IF cs[r] = 46 /\ ~seen THEN RestOK(cs, r + 1, TRUE) ELSE FALSE

\* nb: the character at the rounding position; r: where the rest starts
MaybeRound(cs, data, nb, r, scale, point, neg) ==
  LET digit == IF DIsDigit(nb) THEN nb - 48 ELSE IF nb = 95 THEN 0 ELSE IF nb = 46 /\ ~point THEN 0 ELSE -1 IN
  IF digit = -1 THEN DInv
  ELSE LET d1 == IF digit >= 5 THEN MAdd(data, <<1>>) ELSE data
           over == digit >= 5 /\ MCmp(d1, P96) >= 0
       IN IF over /\ scale = 0 THEN DInv
          ELSE IF ~RestOK(cs, r, point \/ nb = 46) THEN DInv
          ELSE IF over THEN DOkR(neg, MDivSmall(MAdd(d1, <<4>>), 10)[1], scale - 1) ELSE DOkR(neg, d1, scale)

RECURSIVE SkipUnderscores(_, _)
SkipUnderscores(cs, q) == IF q <= Len(cs) /\ cs[q] = 95 THEN SkipUnderscores(cs, q + 1) ELSE q

RECURSIVE DS128(_, _, _, _, _, _)         \* the wide register; cs[p] exists
DS128(cs, p, data, scale, point, neg) ==
  LET b == cs[p] IN
  IF DIsDigit(b) THEN
     LET nx == PushDigit(data, b) IN
     IF MCmp(nx, P96) >= 0 THEN (IF ~point THEN DInv ELSE MaybeRound(cs, data, b, p + 1, scale, point, neg))
     ELSE LET sc2 == scale + (IF point THEN 1 ELSE 0) IN
          IF p = Len(cs) THEN DOkD(neg, nx, sc2)
          ELSE IF point /\ sc2 >= 28 THEN
               (IF cs[p + 1] = 95
                THEN LET q == SkipUnderscores(cs, p + 1) IN
                     IF q > Len(cs) THEN DOkD(neg, nx, sc2) ELSE MaybeRound(cs, nx, cs[q], q + 1, sc2, point, neg)
                ELSE MaybeRound(cs, nx, cs[p + 1], p + 2, sc2, point, neg))
          ELSE DS128(cs, p + 1, nx, sc2, point, neg)
  ELSE IF (b = 46 /\ ~point) \/ b = 95 THEN
     (IF p = Len(cs) THEN DOkD(neg, data, scale) ELSE DS128(cs, p + 1, data, scale, point \/ b = 46, neg))
  ELSE DInv

RECURSIVE DS64(_, _, _, _, _, _, _, _)    \* the narrow register
DS64(cs, p, data, scale, point, neg, has, first) ==
  IF p > Len(cs) THEN (IF has THEN DOkD(neg, data, scale) ELSE DInv)
  ELSE LET b == cs[p] IN
       IF DIsDigit(b) THEN
          LET d2 == PushDigit(data, b)
              sc2 == IF point THEN scale + 1 ELSE 0
          IN IF p = Len(cs) THEN DOkD(neg, d2, sc2)
             ELSE IF point /\ sc2 >= 28 THEN MaybeRound(cs, d2, cs[p + 1], p + 2, sc2, point, neg)
             ELSE IF MCmp(d2, WillOverflowU64) >= 0 THEN DS128(cs, p + 1, d2, sc2, point, neg)
             ELSE DS64(cs, p + 1, d2, sc2, point, neg, TRUE, FALSE)
       ELSE IF b = 46 /\ ~point THEN DS64(cs, p + 1, data, scale, TRUE, neg, has, FALSE)
       ELSE IF b = 45 /\ first /\ ~has THEN DS64(cs, p + 1, data, scale, FALSE, TRUE, FALSE, FALSE)
       ELSE IF b = 43 /\ first /\ ~has THEN DS64(cs, p + 1, data, scale, FALSE, FALSE, FALSE, FALSE)
       ELSE IF b = 95 /\ has THEN DS64(cs, p + 1, data, scale, point, neg, TRUE, FALSE)
       ELSE DInv

DecFromStr(cs) == DS64(cs, 1, <<>>, 0, FALSE, FALSE, FALSE, TRUE)
=============================================================================
