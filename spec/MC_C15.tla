------------------------------- MODULE MC_C15 -------------------------------
(***************************************************************************)
(* C15: a ruleset never holds duplicate or ill-formed rule / function      *)
(* names.  Universe: every sequence of at most MaxOps builder calls over   *)
(* small name pools (with repeats), plus - as one-call histories - every   *)
(* candidate function name of NamePool (all reserved words, identifiers,   *)
(* near-identifiers).  A refused call leaves the accepted state unchanged  *)
(* (the API consumes the builder; the harness rebuilds the accepted        *)
(* prefix).  After the sequence, probe rules (one per pool function name:  *)
(* name(i0); one per pool symbol: :name) are added and the ruleset is      *)
(* evaluated, which shows exactly which functions and symbols it holds.    *)
(***************************************************************************)
EXTENDS RuleSet, TLC, Json

CONSTANTS MaxOps, Names,     \* Names: TRUE = also the function-name table
          Scale              \* n > 0: instead, long histories over n rule / function names and 3n symbol entries (ScaleHistories)
VARIABLES ops, b             \* the calls made so far (with their results), the accepted builder state
vars == <<ops, b>>

R(n) == [name |-> S(n), expr |-> Val(St(n))]
F(n) == [name |-> n, cacheable |-> TRUE, suspend |-> 0, script |-> <<[r |-> "echo"]>>]
OpPool == {
  [op |-> "with_rule", rule |-> R("r1")], [op |-> "with_rule", rule |-> R("r2")],
  [op |-> "with_rule", rule |-> [name |-> S("r1"), expr |-> Val(I(7))]],            \* same name, different body
  [op |-> "with_rules", rules |-> <<[name |-> S("r2"), expr |-> Val(I(8))], R("r3")>>],
  [op |-> "with_rules", rules |-> <<>>], [op |-> "with_rules", rules |-> <<R("r1")>>],
  [op |-> "with_rules", rules |-> <<R("r2")>>], [op |-> "with_rules", rules |-> <<R("r1"), R("r2")>>],
  [op |-> "with_rules", rules |-> <<R("r2"), R("r3"), R("r2")>>],
  [op |-> "with_function", f |-> F(S("f"))], [op |-> "with_function", f |-> F(S("g"))],
  [op |-> "with_function", f |-> F(S("if"))],
  [op |-> "with_functions", fs |-> <<>>], [op |-> "with_functions", fs |-> <<F(S("f"))>>],
  [op |-> "with_functions", fs |-> <<F(S("f")), F(S("g"))>>], [op |-> "with_functions", fs |-> <<F(S("g")), F(S("g"))>>],
  [op |-> "with_functions", fs |-> <<F(S("g")), F(S("in"))>>],
  [op |-> "with_symbol", n |-> S("s"), v |-> I(1)], [op |-> "with_symbol", n |-> S("s"), v |-> I(2)],
  [op |-> "with_symbol", n |-> S("t"), v |-> I(3)],
  \* re-registering an EQUAL but not identical value still replaces it
  [op |-> "with_symbol", n |-> S("s"), v |-> VFloat(FZero(1))], [op |-> "with_symbol", n |-> S("s"), v |-> VFloat(FZero(-1))],
  [op |-> "with_symbols", tab |-> <<>>], [op |-> "with_symbols", tab |-> << <<S("s"), I(4)>>, <<S("t"), I(5)>> >>] }

\* candidate function names: every reserved word, identifiers, near-identifiers
NamePool == Reserved \cup {
  S("Round"), S("IF"), S("Key"), S("Date_Time"), S("True"), S("f"), S("fn1"), S("_"), S("_x"), S("_1"), S("x_"), S("x1"), S("X"), S("facts"), S("iff"), S("android"), S("int8"),
  S("1x"), S("1"), <<>>, S("_ x"), S("_-"), S("a b"), S("a-b"), S("a.b"), S(" a"), S("a "), S("-"), S("_!"),
  <<233>>, <<97, 233>>, <<20013>>, <<97, 183, 98>>, <<183, 97>>, <<1633>>, <<97, 1633>>, <<95, 183>>,
  <<128512>>, <<97, 128512>>, <<97, 768>>, <<768>>, <<95, 160, 120>> }

\* ---- scale: long histories ------------------------------------------------------------
D2(k) == <<48 + ((k \div 10) % 10), 48 + (k % 10)>>
RN(k) == [name |-> S("r") \o D2(k), expr |-> Val(I(k))]
FN(k) == F(S("fn") \o D2(k))
SN(k) == S("s") \o D2(k)
\* 1..n with positions p and p+1 exchanged
Swapped(n, p) == [i \in 1..n |-> IF i = p THEN p + 1 ELSE IF i = p + 1 THEN p ELSE i]
ScaleHistories ==
  LET n == Scale IN
  \* rules added one by one, almost in name order; then every name again (each must be refused)
  { [i \in 1..n |-> [op |-> "with_rule", rule |-> RN(Swapped(n, p)[i])]] \o [i \in 1..n |-> [op |-> "with_rule", rule |-> RN(i)]] : p \in 1..(n - 1) }
  \* the same in one batch, then single re-additions and a batch holding one duplicate at its end
  \cup { <<[op |-> "with_rules", rules |-> [i \in 1..n |-> RN(Swapped(n, p)[i])]]>> \o [i \in 1..n |-> [op |-> "with_rules", rules |-> <<RN(n + i), RN(i)>>]] : p \in 1..(n - 1) }
  \* functions likewise
  \cup { [i \in 1..n |-> [op |-> "with_function", f |-> FN(Swapped(n, p)[i])]] \o [i \in 1..n |-> [op |-> "with_function", f |-> FN(i)]] : p \in {1, n \div 2, n - 1} }
  \cup { <<[op |-> "with_functions", fs |-> [i \in 1..n |-> FN(Swapped(n, p)[i])]]>> \o [i \in 1..n |-> [op |-> "with_functions", fs |-> <<FN(i)>>]] : p \in {1, n - 1} }
  \* one batch of 3n symbol entries: 2n defaults in descending name order, then n overrides of every second name
  \cup { <<[op |-> "with_symbols", tab |-> [i \in 1..(2 * n) |-> <<SN(2 * n + 1 - i), I(i)>>] \o [i \in 1..n |-> <<SN(2 * i), I(1000 + i)>>]]>>,
         <<[op |-> "with_symbols", tab |-> [i \in 1..(2 * n) |-> <<SN(i), I(i)>>]]>> \o [i \in 1..n |-> [op |-> "with_symbol", n |-> SN(3 * i - 2), v |-> I(2000 + i)]] }

BApply(bb, o) ==
  CASE o.op = "with_rule" -> WithRule(bb, o.rule)
    [] o.op = "with_rules" -> WithRules(bb, o.rules)
    [] o.op = "with_function" -> WithFunction(bb, o.f)
    [] o.op = "with_functions" -> WithFunctions(bb, o.fs)
    [] o.op = "with_symbol" -> WithSymbol(bb, o.n, o.v)
    [] o.op = "with_symbols" -> WithSymbols(bb, o.tab)
ResultOf(x) == IF x.ok THEN [ok |-> TRUE] ELSE [ok |-> FALSE, e |-> x.e, n |-> x.n]

RECURSIVE FoldOps(_, _, _, _)
FoldOps(os, i, bb, acc) == IF i > Len(os) THEN <<acc, bb>>
                           ELSE LET x == BApply(bb, os[i]) IN FoldOps(os, i + 1, x.b, Append(acc, os[i] @@ [x |-> ResultOf(x)]))
Init == IF Scale = 0 THEN ops = <<>> /\ b = EmptyBuilder
        ELSE \E h \in ScaleHistories : LET r == FoldOps(h, 1, EmptyBuilder, <<>>) IN ops = r[1] /\ b = r[2]
Do(o) == LET x == BApply(b, o) IN
         /\ ops' = Append(ops, [o EXCEPT !.op = o.op] @@ [x |-> ResultOf(x)])
         /\ b' = x.b
IsNameTable == IF ops = <<>> THEN FALSE ELSE "nametable" \in DOMAIN ops[1]
Next == \/ /\ Scale = 0 /\ Len(ops) < MaxOps /\ ~IsNameTable
           /\ \E o \in OpPool : Do(o)
        \/ /\ Scale = 0 /\ Names /\ ops = <<>>
           /\ \E n \in NamePool : LET o == [op |-> "with_function", f |-> F(n)] x == BApply(b, o) IN
                /\ ops' = << o @@ [x |-> ResultOf(x), nametable |-> TRUE] >>
                /\ b' = x.b

\* ---- invariants ---------------------------------------------------------------------
NoDuplicates ==
  /\ \A i, j \in 1..Len(b.rules) : i # j => b.rules[i].name # b.rules[j].name
  /\ \A i, j \in 1..Len(b.funcs) : i # j => b.funcs[i].name # b.funcs[j].name
NamesWellFormed == \A i \in 1..Len(b.funcs) : WellFormed(b.funcs[i].name) /\ b.funcs[i].name \notin Reserved
\* the accepted rules are exactly those of the successful calls, in order
RECURSIVE AcceptedRules(_)
AcceptedRules(i) == IF i = 0 THEN <<>>
                    ELSE LET o == ops[i] prev == AcceptedRules(i - 1) IN
                         IF ~o.x.ok THEN prev
                         ELSE IF o.op = "with_rule" THEN Append(prev, o.rule)
                         ELSE IF o.op = "with_rules" THEN prev \o o.rules ELSE prev
ExactlyAccepted == b.rules = AcceptedRules(Len(ops))
\* a refusal reports the offending name: the first offending item of the call
RefusalNamesOffender ==
  \A i \in 1..Len(ops) : ~ops[i].x.ok =>
     CASE ops[i].op = "with_rule" -> ops[i].x.n = ops[i].rule.name
       [] ops[i].op = "with_rules" -> \E k \in 1..Len(ops[i].rules) : ops[i].x.n = ops[i].rules[k].name
       [] ops[i].op = "with_function" -> ops[i].x.n = ops[i].f.name
       [] ops[i].op = "with_functions" -> \E k \in 1..Len(ops[i].fs) : ops[i].x.n = ops[i].fs[k].name
       [] OTHER -> FALSE
\* cross-module: every keyword token of the grammar is reserved (checked against Lexer.tla in MC_Lexer)

\* ---- probes: what does the built ruleset hold? ----------------------------------------
ProbeFns == IF Scale = 0 THEN << S("f"), S("g"), S("if"), S("in") >> ELSE [i \in 1..(Scale + 1) |-> FN(i).name]
ProbeSyms == IF Scale = 0 THEN << S("s"), S("t") >> ELSE [i \in 1..(2 * Scale + 1) |-> SN(i)]
NameTableProbe == IF IsNameTable THEN <<ops[1].f.name>> ELSE <<>>
PF == ProbeFns \o NameTableProbe
ProbeRules == [i \in 1..Len(PF) |-> [name |-> <<1, 102, 48 + i>>, expr |-> Call(PF[i], Val(I(0)))]]
              \o [i \in 1..Len(ProbeSyms) |-> [name |-> <<1, 115, 48 + i>>, expr |-> Sym(ProbeSyms[i])]]
Final == WithRules(b, ProbeRules).b
Run == RunEval(Final, StartEval(Final, VNone), InitGs(Final), 1)
\* each accepted function is invocable under its own name; nothing else is
ProbesAgree ==
  LET run == Run IN
  /\ \A i \in 1..Len(PF) :
       LET o == run.ev.outcomes[Len(b.rules) + i].o IN
       IF HasFn(b, PF[i]) THEN o = Ok(I(0)) ELSE o = ErrN("UnknownFn", PF[i])
  /\ PrintT("CASE " \o ToJson([builder |-> ops \o <<[op |-> "with_rules", rules |-> ProbeRules, x |-> [ok |-> TRUE]]>>,
                               inputs |-> <<VNone>>, schedule |-> <<[a |-> "run", e |-> 1]>>,
                               x |-> <<run.ev.outcomes>>, calls |-> run.gs.calls, key |-> "C15"]))
=============================================================================
