------------------------------ MODULE ParseTrace ------------------------------
(***************************************************************************)
(* Trace validation for the parser (C06, C07, C08, C14): every record is   *)
(* what the real Expr::parse and Rule::parse did with one seeded random    *)
(* text (renderings of random trees with parentheses removed, random       *)
(* layout and comments, alternative spellings, and random character /      *)
(* token deletions, duplications and replacements; rule texts with random  *)
(* comment and metadata lines):                                            *)
(*   [text, x |-> [ok |-> TRUE, t |-> tree] | [ok |-> FALSE] | [panic],     *)
(*    rule |-> [k |-> "ok", name, meta, expr] | [k |-> "parse"] |           *)
(*             [k |-> "missing"] | [k |-> "panic"]]                         *)
(* The specification's lexer, grammar and rule-text reader must give the   *)
(* same answers.                                                           *)
(***************************************************************************)
EXTENDS RuleText, TLC, Json, IOUtils

Rec == ndJsonDeserialize(IOEnv.TRACE)
VARIABLE i
Chunk == 25
Init == i \in {1 + k * Chunk : k \in 0..((Len(Rec) - 1) \div Chunk)}
Next == i % Chunk # 0 /\ i < Len(Rec) /\ i' = i + 1

\* a decimal literal with more significant digits than the type holds is rounded; the rounded value is only
\* prescribed up to one unit of its last place (DESIGN 4.4), so such texts are compared on accept/reject only
Inexact(toks) == \E j \in 1..Len(toks) : toks[j].c = "DECIMAL" /\ LET d == DenoteDecimal(toks[j].s) IN d.ok /\ ~d.exact
Accepted ==
  LET r == Rec[i]
      l == Lex(r.text)
      e == IF l.ok THEN Parse(l.toks) ELSE [ok |-> FALSE]
      ru == IF l.ok THEN RuleFromToks(l.toks, r.text) ELSE ParseError
      loose == l.ok /\ Inexact(l.toks)
      hasx == "x" \in DOMAIN r                                 \* records of the repository's own tests carry
      hasr == "rule" \in DOMAIN r                              \* only the call that was made
  IN /\ (hasx => /\ "ok" \in DOMAIN r.x                       \* not a panic
                  /\ r.x.ok = e.ok
                  /\ (e.ok /\ ~loose => r.x.t = e.t))
     /\ (hasr => /\ r.rule.k = ru.k
                  /\ (ru.k = "ok" /\ ~loose => r.rule.name = ru.name /\ r.rule.meta = ru.meta /\ r.rule.expr = ru.expr))
=============================================================================
