------------------------------ MODULE MC_Compose ------------------------------
(***************************************************************************)
(* C01 / C02, depth 2: "a composite expression evaluates to the            *)
(* composition of its sub-results".  Universe: every (outer kind, child    *)
(* position, inner kind) triple with the inner node's operands and the     *)
(* outer node's other operand ranging over a pool of representative        *)
(* leaves (one or two per type, boundary values, None).  The program is    *)
(* evaluated by the denotation and replayed into the code.                 *)
(***************************************************************************)
EXTENDS Eval, Pools, TLC, Json

CONSTANT NLeaves
VARIABLE c     \* [outer, pos, inner, il (inner operand values), ol (outer other operand), stage]

LeafPool == << I(1), VNone, VBool(TRUE), VInt(I128Max), Fl(1, 3, -1), Dc(25, 1), St("a"), VDT(ZZero), Sec(1), VVec(<<I(1)>>),
               VMap(<< <<S("a"), I(1)>> >>), I(0), VInt(I128Min), VFloat(FNaN), DecMaxV, St("1"), VDT(DTMaxNs), VDur(DurMaxNs) >>
Leaves == SubSeq(LeafPool, 1, NLeaves)
SeqToSet(s) == {s[i] : i \in 1..Len(s)}
Unary1 == SeqToSet(UnaryKinds)
Binary2 == SeqToSet(StrictBinaryKinds) \cup SeqToSet(LazyBinaryKinds)
Arity(k) == IF k \in Unary1 \cup {"call", "index0", "indexa", "vec1"} THEN 1 ELSE IF k = "if" THEN 3 ELSE 2
Kinds == Unary1 \cup Binary2 \cup {"if", "call", "index0", "indexa", "vec1", "vec2", "map2"}

Mk(k, xs) ==
  CASE k = "if" -> If(xs[1], xs[2], xs[3])
    [] k = "call" -> Call(S("f"), xs[1])
    [] k = "index0" -> Idx(xs[1], PosI(0))
    [] k = "indexa" -> Idx(xs[1], FieldI(S("a")))
    [] k = "vec1" -> VecE(<<xs[1]>>)
    [] k = "vec2" -> VecE(<<xs[1], xs[2]>>)
    [] k = "map2" -> MapE(<< <<S("a"), xs[1]>>, <<S("b"), xs[2]>> >>)
    [] Arity(k) = 1 -> Un(k, xs[1])
    [] OTHER -> Bin(k, xs[1], xs[2])

Init == c \in {[stage |-> 0, outer |-> o, pos |-> p, inner |-> i, il |-> <<>>, ol |-> <<>>] : o \in Kinds, i \in Kinds, p \in 1..3}
Next == \/ /\ c.stage = 0 /\ c.pos <= Arity(c.outer)
           /\ Len(c.il) < Arity(c.inner)
           /\ \E v \in SeqToSet(Leaves) : c' = [c EXCEPT !.il = Append(@, v)]
        \/ /\ c.stage = 0 /\ c.pos <= Arity(c.outer) /\ Len(c.il) = Arity(c.inner)
           /\ IF Arity(c.outer) = 1 THEN c' = [c EXCEPT !.stage = 1]
              ELSE \E v \in SeqToSet(Leaves) : c' = [c EXCEPT !.stage = 1, !.ol = <<v>>]

Inner == Mk(c.inner, [i \in 1..Len(c.il) |-> Val(c.il[i])])
Prog == Mk(c.outer, [i \in 1..Arity(c.outer) |-> IF i = c.pos THEN Inner ELSE Val(c.ol[1])])
Env == [input |-> VNone, syms |-> <<>>, ev |-> 1,
        funcs |-> << [name |-> S("f"), cacheable |-> TRUE, suspend |-> 0, script |-> <<[r |-> "echo"]>>] >>]

\* the composite's outcome is the outer operator applied to the inner node's outcome (laziness honoured):
\* the step machine and the denotation agree, and results stay inside their types
Composed ==
  c.stage = 1 =>
  LET d == Den(Prog, Env, EmptySt(Env))
      m == RunAll(StartMs(Prog, <<>>), [counts |-> <<0>>, calls |-> <<>>], Env)
  IN /\ m.ms.mode.o = d.o /\ m.gs.calls = d.st.calls
     /\ (d.o.ok /\ ~IsAp(d.o) => InRange(d.o.v))
     /\ (d.st.taint \/ PrintT("CASE " \o ToJson([prog |-> Prog, env |-> Env, x |-> d.o, calls |-> d.st.calls])))
=============================================================================
