--------------------------- MODULE MC_CacheAbsApa ---------------------------
(***************************************************************************)
(* Apalache instance of CacheAbs: IndInv is inductive (histories of any    *)
(* length) and implies the five user-facing properties.                    *)
(*   apalache-mc check --cinit=ConstInit --init=Init    --inv=IndInv --length=0   Init => IndInv              *)
(*   apalache-mc check --cinit=ConstInit --init=IndInit --inv=IndInv --length=1   IndInv /\ Next => IndInv'  *)
(*   apalache-mc check --cinit=ConstInit --init=IndInit --inv=Props  --length=0   IndInv => Props            *)
(***************************************************************************)
EXTENDS CacheAbs

ConstInit ==
  /\ Ev = {1, 2, 3}
  /\ Fn = {"f_OF_FN", "g_OF_FN", "h_OF_FN"}
  /\ CacheableFn = {"f_OF_FN", "h_OF_FN"}
  /\ Arg = {"a_OF_ARG", "b_OF_ARG"}
  /\ NoF = "none_OF_FN"
  /\ NoA = "none_OF_ARG"

\* the quick tier: two evaluations
ConstInitQ ==
  /\ Ev = {1, 2}
  /\ Fn = {"f_OF_FN", "g_OF_FN", "h_OF_FN"}
  /\ CacheableFn = {"f_OF_FN", "h_OF_FN"}
  /\ Arg = {"a_OF_ARG", "b_OF_ARG"}
  /\ NoF = "none_OF_FN"
  /\ NoA = "none_OF_ARG"

\* an arbitrary state satisfying the invariant
IndInit == IndInv
=============================================================================
