-------------------------------- MODULE Session --------------------------------
(***************************************************************************)
(* The whole public workflow as one specification: rule TEXTS are parsed   *)
(* (Lexer + Grammar + RuleText), added to a builder with user functions    *)
(* and symbols (RuleSet), the ruleset is evaluated against a SERIALIZABLE  *)
(* input (Ser) and yields one outcome per rule (Eval).  Every module of    *)
(* the suite takes part; nothing here is new semantics.                    *)
(*                                                                         *)
(* RunSession(texts, term, funcs, syms) =                                  *)
(*   [k |-> "parse", at]      some text does not parse / has no name        *)
(*   [k |-> "dup", n]         two rules have the same name                 *)
(*   [k |-> "ser"]            the input cannot be serialized               *)
(*   [k |-> "ok", names, outcomes]                                         *)
(***************************************************************************)
EXTENDS RuleText, RuleSet, Ser

RECURSIVE ParseAll(_, _, _)
ParseAll(texts, i, acc) ==
  IF i > Len(texts) THEN [ok |-> TRUE, rules |-> acc]
  ELSE LET r == ParseRuleText(texts[i]) IN
       IF r.k # "ok" THEN [ok |-> FALSE, at |-> i, why |-> r.k]
       ELSE ParseAll(texts, i + 1, Append(acc, [name |-> r.name, expr |-> r.expr]))

RunSession(texts, term, funcs, syms) ==
  LET p == ParseAll(texts, 1, <<>>) IN
  IF ~p.ok THEN [k |-> "parse", at |-> p.at, why |-> p.why]
  ELSE LET b == WithRules(EmptyBuilder, p.rules) IN
       IF ~b.ok THEN [k |-> "dup", n |-> b.n]
       ELSE LET rs == [rules |-> b.b.rules, funcs |-> funcs, syms |-> syms]
                im == Image(term)
            IN IF ~im.ok THEN [k |-> "ser"]
               ELSE LET d == DenRuleSet(rs, im.v, 1, [j \in 1..Len(funcs) |-> 0]) IN
                    [k |-> "ok", outcomes |-> d.outcomes, calls |-> d.st.calls, taint |-> d.st.taint]
=============================================================================
