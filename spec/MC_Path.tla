------------------------------- MODULE MC_Path -------------------------------
(***************************************************************************)
(* C10: names and access paths resolve to exactly the addressed data.      *)
(* Universe: nested inputs with near-miss keys (case variants, prefixes,   *)
(* the key `facts`), every element carrying a distinct value; roots are    *)
(* references, `facts`, symbols, and an unknown function; paths are all    *)
(* sequences of at most MaxSteps .field / .index steps.                    *)
(* Resolve is an independent statement of the rule by structural recursion *)
(* over the path; the invariant checks the evaluator (Den) against it.     *)
(***************************************************************************)
EXTENDS Eval, TLC, Json

CONSTANT MaxSteps

VARIABLE c        \* [inp, tab, root, steps]

M(kv) == VMap(kv)
Inputs == <<
  M(<< <<S("A"), I(2)>>, <<S("a"), I(1)>>, <<S("ab"), I(3)>>, <<S("facts"), I(4)>> >>),
  M(<< <<S("A"), VNone>>,
       <<S("a"), M(<< <<S("A"), I(13)>>, <<S("a"), I(11)>>, <<S("b"), I(12)>> >>)>>,
       <<S("ab"), VVec(<<I(21), I(22), I(23)>>)>>,
       <<S("facts"), M(<< <<S("a"), I(31)>> >>)>> >>),
  M(<< <<S("a"), VVec(<< VVec(<<I(41), I(42)>>), M(<< <<S("a"), I(43)>> >>), VNone, St("s") >>)>>,
       <<S("b"), St("str")>>, <<S("c"), Fl(1, 3, -1)>> >>),
  VVec(<<I(51), I(52)>>),
  VNone,
  I(7),
  M(<<>>),
  M(<< <<S("a"), M(<< <<S("facts"), I(62)>> >>)>>, <<S("facts"), M(<< <<S("facts"), I(61)>> >>)>> >>),
  M(<< <<S("A"), M(<< <<S("A"), M(<< <<S("A"), I(72)>> >>)>> >>)>>,
       <<S("a"), VVec(<< VVec(<< VVec(<<I(71)>>) >>) >>)>> >>),
  M(<< <<S("1"), I(91)>>, <<S("a"), M(<< <<S("0"), I(92)>>, <<S("1"), VVec(<<I(93), I(94)>>)>> >>)>>, <<S("ab"), VVec(<<I(95), M(<< <<S("1"), I(96)>> >>)>>)>> >>) >>

SymTabs == << <<>>,
              << <<S("s"), I(81)>> >>,
              << <<S("S"), VVec(<<I(83)>>)>>, <<S("s"), M(<< <<S("a"), I(82)>> >>)>> >>,
              << <<S("S"), I(84)>>, <<S("facts"), I(85)>> >>,
              \* symbols named like words of the language (a symbol name is any string)
              << <<S("if"), I(88)>>, <<S("key"), VMap(<< <<S("a"), I(87)>> >>)>>, <<S("val"), I(86)>> >> >>

Roots == { Ref(S("a")), Ref(S("A")), Ref(S("ab")), Ref(S("facts")), Ref(S("b")), Ref(S("zz")),
           Sym(S("s")), Sym(S("S")), Sym(S("facts")), Sym(S("zz")), Call(S("nofn"), Val(I(1))),
           Sym(S("val")), Sym(S("key")), Sym(S("if")) }

StepPool == { FieldI(S("a")), FieldI(S("A")), FieldI(S("ab")), FieldI(S("facts")), FieldI(S("b")), FieldI(S("1")),
              PosI(0), PosI(1), PosI(2), PosI(3) }

Init == c \in { [inp |-> i, tab |-> t, root |-> r, steps |-> <<>>] : i \in 1..Len(Inputs), t \in 1..Len(SymTabs), r \in Roots }
Next == /\ Len(c.steps) < MaxSteps
        /\ \E s \in StepPool : c' = [c EXCEPT !.steps = Append(@, s)]

RECURSIVE Build(_, _)
Build(root, steps) == IF steps = <<>> THEN root ELSE Idx(Build(root, SubSeq(steps, 1, Len(steps) - 1)), steps[Len(steps)])
Prog == Build(c.root, c.steps)
Env == [input |-> Inputs[c.inp], syms |-> SymTabs[c.tab], funcs |-> <<>>, ev |-> 1]
Outcome == Den(Prog, Env, EmptySt(Env)).o

\* --- the rule, stated independently of the evaluator ----------------------------------
RootValue ==
  CASE c.root.k = "ref" ->
         IF c.root.n = S("facts") THEN Ok(Inputs[c.inp])           \* the whole input, whatever its shape
         ELSE IF Inputs[c.inp].t # "Map" THEN TypeErr
         ELSE IF \E i \in 1..Len(Inputs[c.inp].kv) : Inputs[c.inp].kv[i][1] = c.root.n
              THEN Ok(Inputs[c.inp].kv[CHOOSE i \in 1..Len(Inputs[c.inp].kv) : Inputs[c.inp].kv[i][1] = c.root.n][2])
              ELSE ErrN("UnknownRef", c.root.n)
    [] c.root.k = "sym" ->
         IF \E i \in 1..Len(SymTabs[c.tab]) : SymTabs[c.tab][i][1] = c.root.n
         THEN Ok(SymTabs[c.tab][CHOOSE i \in 1..Len(SymTabs[c.tab]) : SymTabs[c.tab][i][1] = c.root.n][2])
         ELSE ErrN("Symbol", c.root.n)
    [] c.root.k = "call" -> ErrN("UnknownFn", c.root.n)

RECURSIVE Resolve(_, _, _)
Resolve(v, steps, i) ==
  IF i > Len(steps) THEN Ok(v)
  ELSE LET s == steps[i] IN
       CASE v.t = "None" -> Resolve(VNone, steps, i + 1)                       \* a step into None gives None
         [] v.t = "Map" /\ s.k = "f" ->
              IF \E j \in 1..Len(v.kv) : v.kv[j][1] = s.name
              THEN Resolve(v.kv[CHOOSE j \in 1..Len(v.kv) : v.kv[j][1] = s.name][2], steps, i + 1)
              ELSE Resolve(VNone, steps, i + 1)                               \* missing key
         [] v.t = "Vec" /\ s.k = "i" ->
              IF s.i < Len(v.xs) THEN Resolve(v.xs[s.i + 1], steps, i + 1)
              ELSE Resolve(VNone, steps, i + 1)                               \* index out of range
         [] OTHER -> TypeErr                                                   \* scalar, or wrong step kind

Expected == LET r == RootValue IN IF r.ok THEN Resolve(r.v, c.steps, 1) ELSE r

ResolvesExactly == Outcome = Expected
Emit == PrintT("CASE " \o ToJson([prog |-> Prog, env |-> Env, x |-> Outcome, calls |-> <<>>]))
=============================================================================
