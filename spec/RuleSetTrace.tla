----------------------------- MODULE RuleSetTrace -----------------------------
(***************************************************************************)
(* Trace validation for ruleset evaluations recorded from the real code    *)
(* (C18b: evaluations run concurrently on many threads; C09/C11 random     *)
(* rulesets).  One record per evaluation:                                  *)
(*   [env, rules, input, x |-> <<[rule, o]...>>, calls |-> <<[f, arg]...>>] *)
(* where calls is the projection of the global invocation log onto this    *)
(* evaluation (in the order of the global atomic sequence number).  Each   *)
(* evaluation's projection must be a behaviour of the specification with   *)
(* its own fresh cache: outcomes and invocation sequence are those of      *)
(* DenRuleSet(ruleset, input).                                             *)
(***************************************************************************)
EXTENDS RuleSet, TraceCommon, TLC, Json, IOUtils

Rec == ndJsonDeserialize(IOEnv.TRACE)
VARIABLE i
Chunk == 50
Init == i \in {1 + k * Chunk : k \in 0..((Len(Rec) - 1) \div Chunk)}
Next == i % Chunk # 0 /\ i < Len(Rec) /\ i' = i + 1

Accepted ==
  LET r == Rec[i]
      rs == [rules |-> r.rules, funcs |-> r.env.funcs, syms |-> r.env.syms]
      d == DenRuleSet(rs, r.input, 1, [j \in 1..Len(rs.funcs) |-> 0])
  IN /\ Len(r.x) = Len(d.outcomes)
     /\ \A k \in 1..Len(r.x) : r.x[k].rule = d.outcomes[k].rule /\ ObsMatches(d.outcomes[k].o, r.x[k].o)
     /\ CallsMatch(d.st.calls, r.calls)
=============================================================================
