------------------------------- MODULE BigInt -------------------------------
(***************************************************************************)
(* Signed arbitrary-precision integers for TLC (whose native integers are  *)
(* 32-bit).  A magnitude is a little-endian sequence of limbs in base      *)
(* B = 2^15 without trailing zero limbs (zero is <<>>); a signed integer   *)
(* is a record [s |-> -1|0|1, m |-> magnitude] with s = 0 iff m = <<>>.     *)
(* Limb products are < 2^30, so every intermediate fits a Java int.        *)
(*                                                                         *)
(* reval's Int is an i128, its Decimal a 96-bit mantissa, chrono's         *)
(* instants are nanoseconds in an i64 x i32 pair: none of the properties'  *)
(* boundary cases fit 32 bits, hence this module.  It is itself checked    *)
(* against TLC's native integers in MC_BigInt.                             *)
(***************************************************************************)
EXTENDS Integers, Sequences

B  == 32768
LB == 15

Pow2small(k) == \* 2^k for 0 <= k <= 30
  CASE k = 0 -> 1 [] k = 1 -> 2 [] k = 2 -> 4 [] k = 3 -> 8 [] k = 4 -> 16 [] k = 5 -> 32
    [] k = 6 -> 64 [] k = 7 -> 128 [] k = 8 -> 256 [] k = 9 -> 512 [] k = 10 -> 1024
    [] k = 11 -> 2048 [] k = 12 -> 4096 [] k = 13 -> 8192 [] k = 14 -> 16384 [] k = 15 -> 32768
    [] k = 16 -> 65536 [] k = 17 -> 131072 [] k = 18 -> 262144 [] k = 19 -> 524288
    [] k = 20 -> 1048576 [] k = 21 -> 2097152 [] k = 22 -> 4194304 [] k = 23 -> 8388608
    [] k = 24 -> 16777216 [] k = 25 -> 33554432 [] k = 26 -> 67108864 [] k = 27 -> 134217728
    [] k = 28 -> 268435456 [] k = 29 -> 536870912 [] k = 30 -> 1073741824

----------------------------------------------------------------------------
(* Magnitudes *)

RECURSIVE MStrip(_)
MStrip(m) == IF m = <<>> THEN m
             ELSE IF m[Len(m)] = 0 THEN MStrip(SubSeq(m, 1, Len(m) - 1)) ELSE m

Limb(m, i) == IF i <= Len(m) THEN m[i] ELSE 0

RECURSIVE MFromNat(_)
MFromNat(n) == IF n = 0 THEN <<>> ELSE <<n % B>> \o MFromNat(n \div B)

RECURSIVE MToNatR(_, _)
MToNatR(m, i) == IF i > Len(m) THEN 0 ELSE m[i] + B * MToNatR(m, i + 1)
MToNat(m) == MToNatR(m, 1)              \* only when m < 2^31
MFitsNat(m) == Len(m) <= 2 \/ (Len(m) = 3 /\ m[3] = 1 /\ FALSE) \* conservative: < 2^30

RECURSIVE MCmpR(_, _, _)
MCmpR(a, b, i) == IF i = 0 THEN 0
                  ELSE IF a[i] > b[i] THEN 1 ELSE IF a[i] < b[i] THEN -1 ELSE MCmpR(a, b, i - 1)
MCmp(a, b) == IF Len(a) > Len(b) THEN 1 ELSE IF Len(a) < Len(b) THEN -1 ELSE MCmpR(a, b, Len(a))

RECURSIVE MAddR(_, _, _, _)
MAddR(a, b, i, c) ==
  IF i > Len(a) /\ i > Len(b) THEN (IF c = 0 THEN <<>> ELSE <<c>>)
  ELSE LET s == Limb(a, i) + Limb(b, i) + c IN <<s % B>> \o MAddR(a, b, i + 1, s \div B)
MAdd(a, b) == MAddR(a, b, 1, 0)

RECURSIVE MSubR(_, _, _, _)
MSubR(a, b, i, c) == \* a >= b
  IF i > Len(a) THEN <<>>
  ELSE LET d == a[i] - Limb(b, i) - c IN
       IF d < 0 THEN <<d + B>> \o MSubR(a, b, i + 1, 1) ELSE <<d>> \o MSubR(a, b, i + 1, 0)
MSub(a, b) == MStrip(MSubR(a, b, 1, 0))

RECURSIVE MMulSmallR(_, _, _, _)
MMulSmallR(a, d, i, c) ==
  IF i > Len(a) THEN (IF c = 0 THEN <<>> ELSE <<c>>)
  ELSE LET p == a[i] * d + c IN <<p % B>> \o MMulSmallR(a, d, i + 1, p \div B)
MMulSmall(a, d) == IF d = 0 \/ a = <<>> THEN <<>> ELSE MMulSmallR(a, d, 1, 0)   \* 0 <= d < B

Zeros(n) == [i \in 1..n |-> 0]
MShlLimbs(a, n) == IF a = <<>> THEN a ELSE Zeros(n) \o a
MShrLimbs(a, n) == IF n >= Len(a) THEN <<>> ELSE SubSeq(a, n + 1, Len(a))

RECURSIVE MMulR(_, _, _)
MMulR(a, b, j) == IF j > Len(b) THEN <<>>
                  ELSE MAdd(MShlLimbs(MMulSmall(a, b[j]), j - 1), MMulR(a, b, j + 1))
MMul(a, b) == IF a = <<>> \/ b = <<>> THEN <<>> ELSE MMulR(a, b, 1)

\* division by a single limb 1 <= d < B; result <<quotient, remainder(nat)>>
RECURSIVE MDivSmallR(_, _, _, _)
MDivSmallR(a, d, i, r) == \* returns <<quotient limbs for positions 1..i (little endian), rem>>
  IF i = 0 THEN <<<<>>, r>>
  ELSE LET cur == r * B + a[i]
           rest == MDivSmallR(a, d, i - 1, cur % d)
       IN <<rest[1] \o <<cur \div d>>, rest[2]>>
MDivSmall(a, d) == LET x == MDivSmallR(a, d, Len(a), 0) IN <<MStrip(x[1]), x[2]>>

\* largest q in lo..hi with q*b <= r   (binary search; invariant: lo*b <= r)
RECURSIVE QDigit(_, _, _, _)
QDigit(r, b, lo, hi) ==
  IF lo = hi THEN lo
  ELSE LET mid == (lo + hi + 1) \div 2 IN
       IF MCmp(MMulSmall(b, mid), r) <= 0 THEN QDigit(r, b, mid, hi) ELSE QDigit(r, b, lo, mid - 1)

RECURSIVE MDivModR(_, _, _, _)
MDivModR(a, b, i, r) == \* long division, most significant limb first
  IF i = 0 THEN <<<<>>, r>>
  ELSE LET cur == MStrip(<<a[i]>> \o r)
           q == IF MCmp(cur, b) < 0 THEN 0 ELSE QDigit(cur, b, 1, B - 1)
           rem == IF q = 0 THEN cur ELSE MSub(cur, MMulSmall(b, q))
           rest == MDivModR(a, b, i - 1, rem)
       IN <<rest[1] \o <<q>>, rest[2]>>
MDivMod(a, b) == \* b # <<>>
  IF MCmp(a, b) < 0 THEN <<<<>>, a>>
  ELSE IF Len(b) = 1 THEN LET x == MDivSmall(a, b[1]) IN <<x[1], MFromNat(x[2])>>
  ELSE LET x == MDivModR(a, b, Len(a), <<>>) IN <<MStrip(x[1]), x[2]>>

MShl(a, k) == MShlLimbs(MMulSmall(a, Pow2small(k % LB)), k \div LB)       \* a * 2^k
MShr(a, k) == MDivSmall(MShrLimbs(a, k \div LB), Pow2small(k % LB))[1]    \* floor(a / 2^k)
MPow2(k) == MShl(<<1>>, k)

RECURSIVE NatBits(_)
NatBits(n) == IF n = 0 THEN 0 ELSE 1 + NatBits(n \div 2)
MBitLen(a) == IF a = <<>> THEN 0 ELSE (Len(a) - 1) * LB + NatBits(a[Len(a)])

MIsOdd(a) == a # <<>> /\ a[1] % 2 = 1
MBit(a, k) == (Limb(a, k \div LB + 1) \div Pow2small(k % LB)) % 2           \* bit k (0-based)
\* low k bits of a are all zero?
MLowZero(a, k) == MShl(MShr(a, k), k) = a
\* number of trailing zero bits (a # 0)
RECURSIVE NatTz(_)
NatTz(n) == IF n % 2 = 1 THEN 0 ELSE 1 + NatTz(n \div 2)
RECURSIVE MTzR(_, _)
MTzR(a, i) == IF a[i] = 0 THEN LB + MTzR(a, i + 1) ELSE NatTz(a[i])
MTz(a) == MTzR(a, 1)

RECURSIVE MFromDigitsR(_, _, _)
MFromDigitsR(ds, i, acc) == IF i > Len(ds) THEN acc
                            ELSE MFromDigitsR(ds, i + 1, MAdd(MMulSmall(acc, 10), MFromNat(ds[i])))
MFromDigits(ds) == MFromDigitsR(ds, 1, <<>>)   \* decimal digits, most significant first

RECURSIVE MPow10(_)
MPow10(k) == IF k = 0 THEN <<1>> ELSE MMulSmall(MPow10(k - 1), 10)

RECURSIVE MPow5(_)
MPow5(k) == IF k = 0 THEN <<1>> ELSE MMulSmall(MPow5(k - 1), 5)

\* decimal digits (most significant first) of a magnitude; <<0>> for zero
RECURSIVE MDigitsR(_)
MDigitsR(a) == IF a = <<>> THEN <<>> ELSE LET x == MDivSmall(a, 10) IN MDigitsR(x[1]) \o <<x[2]>>
MDigits(a) == IF a = <<>> THEN <<0>> ELSE MDigitsR(a)

\* limb-wise bit operations on magnitudes of equal limb count n (used for two's complement)
RECURSIVE NatBitOp(_, _, _, _)
NatBitOp(op, x, y, k) == \* k bits
  IF k = 0 THEN 0
  ELSE LET bx == x % 2  by == y % 2
           b == CASE op = "and" -> bx * by
                  [] op = "or"  -> IF bx + by > 0 THEN 1 ELSE 0
                  [] op = "xor" -> (bx + by) % 2
       IN b + 2 * NatBitOp(op, x \div 2, y \div 2, k - 1)
MBitOpFixed(op, a, b, n) == [i \in 1..n |-> NatBitOp(op, Limb(a, i), Limb(b, i), LB)]

----------------------------------------------------------------------------
(* Signed integers *)

Z(s, m) == [s |-> IF m = <<>> THEN 0 ELSE s, m |-> m]
ZZero == [s |-> 0, m |-> <<>>]
ZOne == [s |-> 1, m |-> <<1>>]
ZFromInt(n) == IF n = 0 THEN ZZero ELSE IF n > 0 THEN [s |-> 1, m |-> MFromNat(n)]
               ELSE [s |-> -1, m |-> MFromNat(-n)]
ZToInt(a) == a.s * MToNat(a.m)           \* only when |a| < 2^31
ZIsSmall(a) == Len(a.m) <= 2             \* |a| < 2^30: safe for ZToInt
ZNeg(a) == [s |-> -a.s, m |-> a.m]
ZAbs(a) == [s |-> IF a.s = 0 THEN 0 ELSE 1, m |-> a.m]
ZCmp(a, b) == IF a.s # b.s THEN (IF a.s > b.s THEN 1 ELSE -1)
              ELSE IF a.s = 0 THEN 0 ELSE a.s * MCmp(a.m, b.m)
ZLt(a, b) == ZCmp(a, b) < 0
ZLe(a, b) == ZCmp(a, b) <= 0
ZAdd(a, b) ==
  IF a.s = 0 THEN b ELSE IF b.s = 0 THEN a
  ELSE IF a.s = b.s THEN [s |-> a.s, m |-> MAdd(a.m, b.m)]
  ELSE LET c == MCmp(a.m, b.m) IN
       IF c = 0 THEN ZZero
       ELSE IF c > 0 THEN [s |-> a.s, m |-> MSub(a.m, b.m)]
       ELSE [s |-> b.s, m |-> MSub(b.m, a.m)]
ZSub(a, b) == ZAdd(a, ZNeg(b))
ZMul(a, b) == IF a.s = 0 \/ b.s = 0 THEN ZZero ELSE [s |-> a.s * b.s, m |-> MMul(a.m, b.m)]
\* truncating division and remainder (Rust's / and %), b # 0
ZDivT(a, b) == Z(a.s * b.s, MDivMod(a.m, b.m)[1])
ZRemT(a, b) == Z(a.s, MDivMod(a.m, b.m)[2])
\* floor division by a positive b
ZDivF(a, b) == LET qr == MDivMod(a.m, b.m) IN
               IF a.s >= 0 THEN Z(1, qr[1])
               ELSE IF qr[2] = <<>> THEN Z(-1, qr[1]) ELSE Z(-1, MAdd(qr[1], <<1>>))
ZModF(a, b) == ZSub(a, ZMul(ZDivF(a, b), b))
ZPow2(k) == [s |-> 1, m |-> MPow2(k)]
ZFromDigits(ds) == Z(1, MFromDigits(ds))
ZInRange(a, lo, hi) == ZLe(lo, a) /\ ZLe(a, hi)
ZMin(a, b) == IF ZLe(a, b) THEN a ELSE b
ZMax(a, b) == IF ZLe(a, b) THEN b ELSE a

\* two's complement bit operations at width 9 limbs = 135 bits (wide enough for i128)
TCW == 9
TCMod == MShlLimbs(<<1>>, TCW)
ToTC(a) == IF a.s >= 0 THEN a.m ELSE MSub(TCMod, a.m)
FromTC(m) == LET mm == MStrip(m) IN
             IF Limb(mm, TCW) >= B \div 2 THEN Z(-1, MSub(TCMod, mm)) ELSE Z(1, mm)
ZBitOp(op, a, b) == FromTC(MBitOpFixed(op, ToTC(a), ToTC(b), TCW))

=============================================================================
