-------------------------------- MODULE MC_Ser --------------------------------
(***************************************************************************)
(* C13 universe: every scalar of the pools (each integer width at min, -1, *)
(* 0, 1, max; u128 above i128::MAX; f32/f64 incl. non-finite; chars incl.  *)
(* non-BMP; strings; bytes; none/unit/unit struct/unit variant; a failing  *)
(* Serialize) wrapped up to Depth times by every container kind and        *)
(* position (option, newtypes, sequences, tuples, the four variant shapes, *)
(* maps with the term as value AND as key, structs, duplicate keys).       *)
(***************************************************************************)
EXTENDS Ser, TLC, Json

CONSTANT Depth
VARIABLES t, d

P(k) == ZPow2(k)
IntBounds(k) ==
  CASE k = "i8" -> <<ZNeg(P(7)), ZSub(P(7), ZOne)>> [] k = "i16" -> <<ZNeg(P(15)), ZSub(P(15), ZOne)>>
    [] k = "i32" -> <<ZNeg(P(31)), ZSub(P(31), ZOne)>> [] k = "i64" -> <<ZNeg(P(63)), ZSub(P(63), ZOne)>>
    [] k = "i128" -> <<ZNeg(P(127)), ZSub(P(127), ZOne)>>
    [] k = "u8" -> <<ZZero, ZSub(P(8), ZOne)>> [] k = "u16" -> <<ZZero, ZSub(P(16), ZOne)>>
    [] k = "u32" -> <<ZZero, ZSub(P(32), ZOne)>> [] k = "u64" -> <<ZZero, ZSub(P(64), ZOne)>>
    [] k = "u128" -> <<ZZero, ZSub(P(128), ZOne)>>
IntTerms == UNION { LET b == IntBounds(k) IN
                    {[k |-> k, n |-> n] : n \in {b[1], b[2], ZZero, ZOne} \cup (IF b[1].s < 0 THEN {ZFromInt(-1), ZAdd(b[1], ZOne)} ELSE {ZSub(b[2], ZOne)})}
                  : k \in IntKinds }
            \cup {[k |-> "u128", n |-> P(127)], [k |-> "u128", n |-> ZAdd(P(127), ZOne)], [k |-> "u64", n |-> P(63)]}
F32Max == FNorm(1, MSub(MPow2(24), <<1>>), 104)
FloatTerms == {[k |-> kk, f |-> f] : kk \in {"f32", "f64"}, f \in {FZero(1), FZero(-1), FNorm(1, <<3>>, -1), FNorm(-1, <<1>>, -149), F32Max, FInf(1), FInf(-1), FNaN}}
              \cup {[k |-> "f64", f |-> FNorm(1, MFromDigits(<<3,6,0,2,8,7,9,7,0,1,8,9,6,3,9,7>>), -55)], [k |-> "f64", f |-> FNorm(1, <<1>>, -1074)],
                    [k |-> "f32", f |-> FNorm(1, MFromNat(13421773), -27)], [k |-> "f32", f |-> FNorm(-1, MFromNat(10066330), -25)]}
Scalars == IntTerms \cup FloatTerms
  \cup {[k |-> "bool", b |-> TRUE], [k |-> "bool", b |-> FALSE], [k |-> "char", c |-> 97], [k |-> "char", c |-> 233], [k |-> "char", c |-> 128512],
        [k |-> "str", cs |-> <<>>], [k |-> "str", cs |-> S("k")], [k |-> "str", cs |-> <<104, 233, 128512>>],
        \* strings that look like other kinds of data stay strings
        [k |-> "str", cs |-> S("2015-07-30T03:26:13Z")], [k |-> "str", cs |-> S("2024-03-10T08:30:00+02:00")], [k |-> "str", cs |-> S("1.5")],
        [k |-> "str", cs |-> S("true")], [k |-> "str", cs |-> S("none")], [k |-> "str", cs |-> S("i1")], [k |-> "str", cs |-> S("PT1S")],
        [k |-> "bytes", bs |-> <<>>], [k |-> "bytes", bs |-> <<0, 255, 7>>],
        [k |-> "none"], [k |-> "unit"], [k |-> "unit_struct", name |-> S("U")], [k |-> "unit_variant", name |-> S("E"), variant |-> S("A")],
        [k |-> "fail", msg |-> S("nope")], [k |-> "seq", xs |-> <<>>], [k |-> "tuple_variant", name |-> S("E"), variant |-> S("T0"), xs |-> <<>>], [k |-> "map", kv |-> <<>>], [k |-> "struct", name |-> S("S"), fields |-> <<>>]}

S0 == [k |-> "u8", n |-> ZFromInt(5)]
K(str) == [k |-> "str", cs |-> S(str)]
Wraps(x) == {
  [k |-> "some", x |-> x], [k |-> "newtype_struct", name |-> S("N"), x |-> x],
  [k |-> "hr", x |-> x, y |-> [k |-> "seq", xs |-> <<S0, S0>>]],
  [k |-> "newtype_variant", name |-> S("E"), variant |-> S("V"), x |-> x],
  [k |-> "seq", xs |-> <<x>>], [k |-> "seq", xs |-> <<S0, x>>], [k |-> "tuple", xs |-> <<x, S0>>],
  [k |-> "tuple_struct", name |-> S("T"), xs |-> <<x>>], [k |-> "tuple_variant", name |-> S("E"), variant |-> S("T"), xs |-> <<S0, x>>],
  [k |-> "tuple_variant", name |-> S("E"), variant |-> S("T1"), xs |-> <<x>>], [k |-> "tuple", xs |-> <<x>>],       \* a sequence of ONE is still a sequence
  [k |-> "map", kv |-> << <<K("k"), x>> >>], [k |-> "map", kv |-> << <<x, S0>> >>],
  [k |-> "map", kv |-> << <<K("k"), S0>>, <<K("a"), x>>, <<K("k"), x>> >>],
  \* keys and values emitted separately, keys not in order, a key repeated
  [k |-> "mapkv", kv |-> << <<K("z"), S0>>, <<K("a"), x>>, <<K("m"), S0>>, <<K("a"), S0>>, <<K("b"), x>> >>],
  [k |-> "struct", name |-> S("S"), fields |-> << <<S("f"), x>> >>], [k |-> "struct", name |-> S("S"), fields |-> << <<S("z"), S0>>, <<S("a"), x>> >>],
  [k |-> "struct_variant", name |-> S("E"), variant |-> S("SV"), fields |-> << <<S("f"), x>> >>],
  \* skipped fields (before, between and after the present ones)
  [k |-> "struct", name |-> S("S"), fields |-> << <<S("gone"), [k |-> "skipped"]>>, <<S("z"), S0>>, <<S("m"), [k |-> "skipped"]>>, <<S("a"), x>>, <<S("b"), [k |-> "skipped"]>> >>],
  [k |-> "struct_variant", name |-> S("E"), variant |-> S("SV"), fields |-> << <<S("f"), x>>, <<S("g"), [k |-> "skipped"]>> >>] }

Init == t \in Scalars /\ d = 0
Next == d < Depth /\ d' = d + 1 /\ \E x \in Wraps(t) : t' = x

ImageOK ==
  LET r == Image(t) IN
  /\ r.ok = ~Bad(t)                                   \* fails exactly when something cannot be represented
  /\ (r.ok => InRange(r.v))
  /\ (t.k \in IntKinds /\ r.ok => r.v = VInt(t.n))    \* integers keep their exact numeric value
  /\ (t.k = "some" => r = Image(t.x))                 \* options collapse
  /\ PrintT("CASE " \o ToJson([term |-> t, x |-> r, json |-> JsonRep(t), key |-> "ser"]))
=============================================================================
