------------------------------- MODULE MC_Ops -------------------------------
(***************************************************************************)
(* Bounded universe for the operator table (properties C01-C04).           *)
(* One TLC state per cell: the state is [kind, ar, a] where `a` grows from  *)
(* <<>> to `ar` operand values drawn from the pools.  Invariants are       *)
(* evaluated in every complete cell; the Emit "invariant" prints the cell  *)
(* and its prescribed outcome as one JSON line for replay into the code.   *)
(***************************************************************************)
EXTENDS Ops, Pools, TLC, Json

CONSTANTS Tier,      \* "quick" | "thorough"
          Prop       \* "C01" | "C02" | "C03" | "C04"

VARIABLE c

Vals == IF Prop = "C03" THEN (IF Tier = "quick" THEN ValsC ELSE ValsC \o ValsQ)
        ELSE IF Tier = "quick" THEN ValsQ ELSE ValsT
ValsNN == SelectSeq(Vals, LAMBDA v : v.t # "None")

IndexPool == << [k |-> "f", name |-> S("a")], [k |-> "f", name |-> S("A")], [k |-> "f", name |-> S("facts")], [k |-> "f", name |-> S("1")],
                [k |-> "f", name |-> S("")],
                [k |-> "i", i |-> 0], [k |-> "i", i |-> 1], [k |-> "i", i |-> 2] >>

SeqToSet(s) == {s[i] : i \in 1..Len(s)}
\* Prop = "C12": only the date / time / duration cells (replayed under a non-UTC local time zone)
\* (and the casts of text: an outcome must not depend on what the same thread evaluated before)
TimeKinds1 == {"datetime", "duration", "year", "month", "week", "day", "hour", "minute", "second", "int", "float", "dec"}
Kinds1 == IF Prop = "C12" THEN TimeKinds1 ELSE SeqToSet(UnaryKinds) \cup {"if"}
Kinds2 == IF Prop = "C12" THEN {"add", "sub", "gt", "eq"} ELSE SeqToSet(StrictBinaryKinds) \cup SeqToSet(LazyBinaryKinds) \cup {"index"}

Init == c \in {[kind |-> k, ar |-> 1, a |-> <<>>] : k \in Kinds1}
              \cup {[kind |-> k, ar |-> 2, a |-> <<>>] : k \in Kinds2}

\* the pool for the next operand position
TimeVals == SelectSeq(Vals, LAMBDA v : v.t \in {"DT", "Dur", "Str", "Int"})
NextPool ==
  IF Prop = "C12" THEN TimeVals
  ELSE IF c.kind = "index" /\ Len(c.a) = 1 THEN IndexPool
  ELSE IF Prop = "C03" THEN ValsNN
  ELSE IF Prop = "C04" THEN
       (IF c.ar = 1 THEN <<VNone>>
        ELSE IF c.kind = "index" THEN <<VNone>>
        ELSE IF Len(c.a) = 0 THEN Vals
        ELSE IF c.a[1].t = "None" THEN Vals ELSE <<VNone>>)
  ELSE Vals

Next == /\ Len(c.a) < c.ar
        /\ \E i \in 1..Len(NextPool) : c' = [c EXCEPT !.a = Append(@, NextPool[i])]

Final == Len(c.a) = c.ar

Outcome ==
  IF c.ar = 1 THEN (IF c.kind = "if" THEN Cond(c.a[1]) ELSE Unary(c.kind, c.a[1]))
  ELSE IF c.kind = "index" THEN IndexOp(c.a[1], c.a[2])
  ELSE IF c.kind \in SeqToSet(LazyBinaryKinds) THEN LazyBinary(c.kind, c.a[1], c.a[2])
  ELSE Binary(c.kind, c.a[1], c.a[2])

Emit == Final => PrintT("CASE " \o ToJson([k |-> c.kind, a |-> c.a, x |-> Outcome]))

----------------------------------------------------------------------------
(* C01: no Ok result lies outside the range of its type; the table is total *)
ResultInRange == Final => LET o == Outcome IN IF o.ok THEN IsUnmodelled(o) \/ InRange(o.v) ELSE o.e \in {"Type", "Div", "Cast", "Bounds", "Range"}

----------------------------------------------------------------------------
(* C03: the case analysis agrees with the declarative signature table *)
IsTypeErr(o) == IF o.ok THEN FALSE ELSE o.e = "Type"
SigAgrees ==
  (Final /\ \A i \in 1..c.ar : (c.kind = "index" /\ i = 2) \/ c.a[i].t # "None") =>
  LET o == Outcome IN
  IF IsUnmodelled(o) THEN TRUE ELSE
  CASE c.kind = "if" -> (c.a[1].t = "Bool") = ~IsTypeErr(o)
    [] c.ar = 1 -> LET sig == {s \in USig(c.kind) : s[1] = c.a[1].t} IN
                   IF sig = {} THEN IsTypeErr(o)
                   ELSE ~IsTypeErr(o) /\ (o.ok => \E s \in sig : o.v.t = s[2])
    [] c.kind = "index" -> (IsTypeErr(o) = ~((c.a[1].t = "Map" /\ c.a[2].k = "f") \/ (c.a[1].t = "Vec" /\ c.a[2].k = "i")))
    [] c.kind \in {"eq", "neq"} -> o.ok /\ o.v.t = "Bool" /\ (c.a[1].t # c.a[2].t => o.v.b = (c.kind = "neq"))
    [] c.kind \in {"and", "or"} ->
         IsTypeErr(o) = (c.a[1].t # "Bool" \/ (RightNeeded(c.kind, c.a[1]) /\ c.a[2].t # "Bool"))
    [] OTHER -> LET sig == {s \in BSig(c.kind) : s[1] = c.a[1].t /\ s[2] = c.a[2].t} IN
                IF sig = {} THEN IsTypeErr(o)
                ELSE ~IsTypeErr(o) /\ (o.ok => \E s \in sig : o.v.t = s[3])

----------------------------------------------------------------------------
(* C04: a None operand yields what the declarative None rule says, never an error
   (except the conditions of if/and/or, and membership of a None item) *)
NoneRuleAgrees ==
  (Final /\ \E i \in 1..c.ar : (c.kind # "index" \/ i = 1) /\ c.a[i].t = "None") =>
  LET o == Outcome IN
  CASE c.kind = "if" -> IsTypeErr(o)
    [] c.ar = 1 -> o = Ok(UNoneRule(c.kind))
    [] c.kind = "index" -> o = Ok(VNone)
    [] c.kind = "eq" -> IF c.a[1].t = "None" THEN o = B2(FALSE) ELSE o = B2(FALSE)
    [] c.kind = "neq" -> o = B2(TRUE)
    [] c.kind \in {"and", "or"} ->
         IF c.a[1].t = "None" THEN IsTypeErr(o)
         ELSE IF c.a[1].t # "Bool" THEN IsTypeErr(o)
         ELSE IF RightNeeded(c.kind, c.a[1]) THEN IsTypeErr(o) ELSE o = B2(c.a[1].b)
    [] c.a[1].t = "None" -> o = Ok(BNoneLeft(c.kind))
    [] OTHER -> IF BNoneRightOrdinary(c.kind)
                THEN (CASE c.a[1].t = "Vec" -> o = B2(\E i \in 1..Len(c.a[1].xs) : c.a[1].xs[i].t = "None")
                        [] OTHER -> IsTypeErr(o))
                ELSE o = Ok(BNoneRight(c.kind))

----------------------------------------------------------------------------
(* C02: internal consistency of the table (keeps transcription slips out of the oracle) *)
Swap(kind) == CASE kind = "lt" -> "gt" [] kind = "gt" -> "lt" [] kind = "lte" -> "gte" [] kind = "gte" -> "lte"
OkEq(o1, o2) == IF o1.ok /\ o2.ok THEN ValEq(o1.v, o2.v) \/ (o1.v.t = "Float" /\ o2.v.t = "Float" /\ FIsNaN(o1.v.f) /\ FIsNaN(o2.v.f))
                ELSE o1.ok = o2.ok /\ (~o1.ok => o1.e = o2.e)
TableConsistent ==
  (Final /\ c.ar = 2 /\ c.kind # "index") =>
  LET l == c.a[1] r == c.a[2] o == Outcome IN
  CASE c.kind \in {"add", "mult", "bitand", "bitor", "bitxor"} ->
         \* commutative (also in its errors), except the (DT, Dur) row of add
         (l.t = r.t) => OkEq(o, Binary(c.kind, r, l))
    [] c.kind \in {"lt", "gt", "lte", "gte"} -> o = Binary(Swap(c.kind), r, l)
    [] c.kind = "sub" ->
         \* a - b = a + (-b) wherever all three are defined on numbers
         (l.t = r.t /\ l.t \in {"Int", "Float", "Dec"}) =>
           LET nb == Unary("neg", r) IN (nb.ok /\ o.ok) => OkEq(o, Binary("add", l, nb.v))
    [] c.kind = "div" ->
         \* (a / b) * b + a % b = a  for Int and exact Dec
         (l.t = r.t /\ l.t = "Int" /\ o.ok) =>
           LET m == Binary("rem", l, r) IN
           m.ok /\ LET p == Binary("mult", o.v, r) IN p.ok /\ OkEq(Binary("add", p.v, m.v), Ok(l))
    [] c.kind = "rem" ->
         (l.t = r.t /\ l.t = "Int" /\ o.ok) => (o.v.n.s = 0 \/ o.v.n.s = l.n.s) /\ MCmp(o.v.n.m, r.n.m) < 0
    [] c.kind = "eq" -> (l.t # "None" /\ r.t # "None") => o = LazyBinary("eq", r, l)
    [] c.kind = "neq" -> o.ok /\ LazyBinary("eq", l, r).ok /\ o.v.b = ~LazyBinary("eq", l, r).v.b
    [] c.kind = "contains" -> (l.t = "Int" /\ r.t = "Int") => o = Binary("contains", r, l)
    [] OTHER -> TRUE
UnaryConsistent ==
  (Final /\ c.ar = 1 /\ c.kind # "if") =>
  LET v == c.a[1] o == Outcome IN
  CASE c.kind = "floor" /\ v.t = "Float" /\ v.f.c = "fin" ->
         \* floor(x) <= x < floor(x) + 1, integral
         /\ FCmp(o.v.f, v.f) \in {"lt", "eq"} /\ FCmp(v.f, FAdd(o.v.f, FNorm(1, <<1>>, 0))) \in {"lt", "eq"}
         /\ FIsInt(o.v.f)
    [] c.kind = "floor" /\ v.t = "Dec" ->
         /\ DCmp(o.v.n, 0, v.n, v.sc) <= 0 /\ DCmp(v.n, v.sc, ZAdd(o.v.n, ZOne), 0) < 0
    [] c.kind = "fract" /\ v.t = "Dec" ->
         \* x = trunc(x) + fract(x)
         DCmp(ZAdd(ZMul(DTruncZ(v.n, v.sc), Z(1, MPow10(v.sc))), o.v.n), v.sc, v.n, v.sc) = 0
    [] c.kind = "fract" /\ v.t = "Float" /\ v.f.c = "fin" -> FEq(FAdd(FTrunc(v.f), o.v.f), v.f)
    [] c.kind = "round" /\ v.t = "Float" /\ v.f.c = "fin" ->
         \* |round(x) - x| <= 1/2
         FCmp(FAbs(FSub(o.v.f, v.f)), FNorm(1, <<1>>, -1)) \in {"lt", "eq"}
    [] c.kind = "neg" /\ o.ok /\ v.t \in {"Int", "Dec"} -> LET b == Unary("neg", o.v) IN b.ok /\ ValEq(b.v, v)
    [] c.kind = "not" /\ o.ok /\ v.t = "Bool" -> Unary("not", o.v) = Ok(v)
    [] c.kind \in {"day", "hour", "minute", "second", "week"} /\ v.t = "Int" /\ o.ok ->
         \* the extractor inverts the constructor
         Unary(c.kind, o.v) = Ok(v)
    [] c.kind = "second" /\ v.t = "DT" ->
         \* the fields recompose the instant (to the second)
         LET f(u) == ZToInt(Unary(u, v).v.n) IN
         Instant(f("year"), f("month"), f("day"), f("hour"), f("minute"), f("second"), ZZero)
           = ZMul(EpochSec(v.n), NsPerSec)
    [] c.kind = "float" /\ v.t = "Int" -> \* |float(n) - n| is at most half an ulp: re-truncation is within 2^(len-53)
         o.ok /\ (MBitLen(v.n.m) <= 53 => FTruncZ(o.v.f) = v.n)
    [] c.kind = "int" /\ v.t = "Float" /\ o.ok -> FEq(FFromZExact(o.v.n), FTrunc(v.f))
    [] c.kind = "some" -> o.ok /\ Unary("none", v) = B2(~o.v.b)
    [] OTHER -> TRUE
=============================================================================
