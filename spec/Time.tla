-------------------------------- MODULE Time --------------------------------
(***************************************************************************)
(* Instants and durations.  A DateTime is a signed BigInt number of        *)
(* nanoseconds since 1970-01-01T00:00:00Z (proleptic Gregorian calendar,   *)
(* no leap seconds); a Duration is a signed BigInt number of nanoseconds.  *)
(* Ranges are those of the value types: instants from the first instant of *)
(* year -262143 to the last nanosecond of year 262142; durations within    *)
(* +-(2^63 - 1) milliseconds.                                              *)
(***************************************************************************)
EXTENDS BigInt

D(ds) == ZFromDigits(ds)
NsPerSec == D(<<1,0,0,0,0,0,0,0,0,0>>)
NsPerMs == D(<<1,0,0,0,0,0,0>>)
SecPerDay == ZFromInt(86400)
I64Max == ZSub(ZPow2(63), ZOne)
I64Min == ZNeg(ZPow2(63))

DurMaxNs == ZMul(I64Max, NsPerMs)
DurMinNs == ZNeg(DurMaxNs)
DurInRange(ns) == ZInRange(ns, DurMinNs, DurMaxNs)

DTMinSec == ZNeg(D(<<8,3,3,4,6,0,1,2,2,8,8,0,0>>))          \* -262143-01-01T00:00:00Z
DTMaxSec == D(<<8,2,1,0,2,6,6,8,7,6,7,9,9>>)                  \*  262142-12-31T23:59:59Z
DTMinNs == ZMul(DTMinSec, NsPerSec)
DTMaxNs == ZAdd(ZMul(DTMaxSec, NsPerSec), D(<<9,9,9,9,9,9,9,9,9>>))
DTInRange(ns) == ZInRange(ns, DTMinNs, DTMaxNs)
SecInDTRange(sec) == ZInRange(sec, DTMinSec, DTMaxSec)

\* unit lengths in nanoseconds
UnitNs(u) == CASE u = "second" -> NsPerSec
               [] u = "minute" -> ZMul(ZFromInt(60), NsPerSec)
               [] u = "hour"   -> ZMul(ZFromInt(3600), NsPerSec)
               [] u = "day"    -> ZMul(ZFromInt(86400), NsPerSec)
               [] u = "week"   -> ZMul(ZFromInt(604800), NsPerSec)

\* whole units in a duration, toward zero
DurUnits(ns, u) == ZDivT(ns, UnitNs(u))

\* calendar fields of an instant ------------------------------------------------
EpochSec(ns) == ZDivF(ns, NsPerSec)                         \* floor
EpochDay(ns) == ZToInt(ZDivF(EpochSec(ns), SecPerDay))       \* |days| < 10^8: native
SecOfDay(ns) == ZToInt(ZModF(EpochSec(ns), SecPerDay))

FloorDiv(a, b) == IF a >= 0 THEN a \div b ELSE -((-a + b - 1) \div b)   \* b > 0

\* civil_from_days (H. Hinnant): days since 1970-01-01 -> <<year, month, day>>
Civil(z0) ==
  LET z == z0 + 719468
      era == FloorDiv(z, 146097)
      doe == z - era * 146097
      yoe == (doe - doe \div 1460 + doe \div 36524 - doe \div 146096) \div 365
      y == yoe + era * 400
      doy == doe - (365 * yoe + yoe \div 4 - yoe \div 100)
      mp == (5 * doy + 2) \div 153
      d == doy - (153 * mp + 2) \div 5 + 1
      m == IF mp < 10 THEN mp + 3 ELSE mp - 9
  IN <<IF m <= 2 THEN y + 1 ELSE y, m, d>>

\* days_from_civil: inverse (used to write instants in the value pools and for self-checks)
DaysFromCivil(y0, m, d) ==
  LET y == IF m <= 2 THEN y0 - 1 ELSE y0
      era == FloorDiv(y, 400)
      yoe == y - era * 400
      doy == (153 * (IF m > 2 THEN m - 3 ELSE m + 9) + 2) \div 5 + d - 1
      doe == yoe * 365 + yoe \div 4 - yoe \div 100 + doy
  IN era * 146097 + doe - 719468

DTField(ns, u) ==
  CASE u = "year"   -> Civil(EpochDay(ns))[1]
    [] u = "month"  -> Civil(EpochDay(ns))[2]
    [] u = "day"    -> Civil(EpochDay(ns))[3]
    [] u = "hour"   -> SecOfDay(ns) \div 3600
    [] u = "minute" -> (SecOfDay(ns) % 3600) \div 60
    [] u = "second" -> SecOfDay(ns) % 60

\* an instant from civil fields (y, mo, d, h, mi, s, nanos as a BigInt)
Instant(y, mo, d, h, mi, s, nanos) ==
  ZAdd(ZMul(ZAdd(ZMul(ZFromInt(DaysFromCivil(y, mo, d)), SecPerDay), ZFromInt(h * 3600 + mi * 60 + s)),
            NsPerSec), nanos)
=============================================================================
