--------------------------------- MODULE Ser ---------------------------------
(***************************************************************************)
(* Serializing input data into a Value (C13): the serde data model as      *)
(* terms, and Image(term) = the Value it must become, or a serialization   *)
(* error.  Terms (k = kind):                                               *)
(*   bool b | i8..i128, u8..u128 n (BigInt) | f32, f64 f | char c | str cs *)
(*   bytes bs | none | some x | unit | unit_struct | unit_variant variant  *)
(*   newtype_struct x | newtype_variant variant x | seq xs | tuple xs      *)
(*   tuple_struct xs | tuple_variant variant xs | map kv (<<key, value>>)  *)
(*   mapkv kv (the same, emitted key by key and value by value)            *)
(*   struct fields (<<name, value>>) | struct_variant variant fields       *)
(*   fail msg   (a value whose own Serialize implementation fails)         *)
(*   skipped    (only as the value of a struct field: the field is skipped) *)
(*   hr x y     (a value that serializes as x for human-readable formats   *)
(*              and as y for compact ones: Value, like JSON, is the former) *)
(***************************************************************************)
EXTENDS Values

SOk(v) == [ok |-> TRUE, v |-> v]
SErr == [ok |-> FALSE, e |-> "Ser"]

IntKinds == {"i8", "i16", "i32", "i64", "i128", "u8", "u16", "u32", "u64", "u128"}
SeqKinds == {"seq", "tuple", "tuple_struct"}
\* "mapkv" is a map whose entries are emitted as separate key and value calls (what flattened fields and many
\* hand-written implementations do) instead of whole entries: the data, and so the image, is the same
MapKinds == {"map", "mapkv"}

\* a map key must serialize to a string
RECURSIVE KeyOf(_)
KeyOf(t) == IF t.k = "str" THEN [ok |-> TRUE, cs |-> t.cs]
            ELSE IF t.k = "hr" THEN KeyOf(t.x)                 \* the key serializer is human-readable too
            ELSE [ok |-> FALSE]

RECURSIVE Image(_), ImageSeq(_, _, _), ImageFields(_, _, _), ImageMap(_, _, _)
ImageSeq(xs, i, acc) == IF i > Len(xs) THEN SOk(VVec(acc))
                        ELSE LET r == Image(xs[i]) IN IF r.ok THEN ImageSeq(xs, i + 1, Append(acc, r.v)) ELSE SErr
\* a field may be SKIPPED (what a derived implementation does for `skip_serializing_if`): it is announced to the
\* serializer but is not part of the data
ImageFields(fs, i, acc) == IF i > Len(fs) THEN SOk(VMap(acc))
                           ELSE IF fs[i][2].k = "skipped" THEN ImageFields(fs, i + 1, acc)
                           ELSE LET r == Image(fs[i][2]) IN IF r.ok THEN ImageFields(fs, i + 1, MapPut(acc, fs[i][1], r.v)) ELSE SErr
ImageMap(kv, i, acc) == IF i > Len(kv) THEN SOk(VMap(acc))
                        ELSE LET key == KeyOf(kv[i][1]) IN
                             IF ~key.ok THEN SErr
                             ELSE LET r == Image(kv[i][2]) IN IF r.ok THEN ImageMap(kv, i + 1, MapPut(acc, key.cs, r.v)) ELSE SErr
Tag(variant, r) == IF r.ok THEN SOk(VMap(<< <<variant, r.v>> >>)) ELSE SErr

Image(t) ==
  CASE t.k = "bool" -> SOk(VBool(t.b))
    [] t.k \in IntKinds -> IF IntInRange(t.n) THEN SOk(VInt(t.n)) ELSE SErr        \* exact, or an error (u128 above i128::MAX)
    [] t.k \in {"f32", "f64"} -> SOk(VFloat(t.f))
    [] t.k = "char" -> SOk(VStr(<<t.c>>))
    [] t.k = "str" -> SOk(VStr(t.cs))
    [] t.k = "bytes" -> SOk(VVec([i \in 1..Len(t.bs) |-> I(t.bs[i])]))
    [] t.k \in {"none", "unit", "unit_struct"} -> SOk(VNone)
    [] t.k \in {"some", "newtype_struct"} -> Image(t.x)
    [] t.k = "unit_variant" -> SOk(VStr(t.variant))
    [] t.k = "newtype_variant" -> Tag(t.variant, Image(t.x))
    [] t.k \in SeqKinds -> ImageSeq(t.xs, 1, <<>>)
    [] t.k = "tuple_variant" -> Tag(t.variant, ImageSeq(t.xs, 1, <<>>))
    [] t.k \in MapKinds -> ImageMap(t.kv, 1, <<>>)
    [] t.k = "struct" -> ImageFields(t.fields, 1, <<>>)
    [] t.k = "struct_variant" -> Tag(t.variant, ImageFields(t.fields, 1, <<>>))
    [] t.k = "fail" -> SErr
    [] t.k = "hr" -> Image(t.x)

\* independent statement of WHEN serialization fails: exactly when some sub-term cannot be represented
RECURSIVE Bad(_)
Bad(t) ==
  CASE t.k = "fail" -> TRUE
    [] t.k \in IntKinds -> ~IntInRange(t.n)
    [] t.k \in {"some", "newtype_struct", "newtype_variant", "hr"} -> Bad(t.x)
    [] t.k \in SeqKinds \cup {"tuple_variant"} -> \E i \in 1..Len(t.xs) : Bad(t.xs[i])
    [] t.k \in MapKinds -> \E i \in 1..Len(t.kv) : ~KeyOf(t.kv[i][1]).ok \/ Bad(t.kv[i][2])
    [] t.k \in {"struct", "struct_variant"} -> \E i \in 1..Len(t.fields) : t.fields[i][2].k # "skipped" /\ Bad(t.fields[i][2])
    [] OTHER -> FALSE

\* JSON-representable data: finite floats, integers within 64 bits (and nothing failing)
RECURSIVE JsonRep(_)
JsonRep(t) ==
  CASE t.k \in IntKinds -> ZInRange(t.n, ZNeg(ZPow2(63)), ZSub(ZPow2(64), ZOne))
    [] t.k \in {"f32", "f64"} -> t.f.c = "fin"
    [] t.k \in {"some", "newtype_struct", "newtype_variant", "hr"} -> JsonRep(t.x)
    [] t.k \in SeqKinds \cup {"tuple_variant"} -> \A i \in 1..Len(t.xs) : JsonRep(t.xs[i])
    [] t.k \in MapKinds -> \A i \in 1..Len(t.kv) : KeyOf(t.kv[i][1]).ok /\ JsonRep(t.kv[i][2])
    [] t.k \in {"struct", "struct_variant"} -> \A i \in 1..Len(t.fields) : t.fields[i][2].k = "skipped" \/ JsonRep(t.fields[i][2])
    [] t.k = "fail" -> FALSE
    [] OTHER -> TRUE
=============================================================================
