----------------------------- MODULE MC_CacheAbs -----------------------------
(* TLC instance of CacheAbs (bounded counters): a sanity run of the same Init / Next / IndInv / Props *)
EXTENDS CacheAbs, TLC
CONSTANT MaxCount
Bounded == \A f \in Fn : count[f] <= MaxCount
=============================================================================
