#!/usr/bin/env python3
"""Seed sweep of the random (V) tiers only: for each seed record with every recorder and let TLC validate.
usage: sweep.py <first seed> <last seed> [scale]   (prints one line per rejection; exit 1 if any)"""
import json, os, subprocess, sys, re
ROOT = os.path.dirname(os.path.dirname(os.path.abspath(__file__)))
CONFORM = os.path.join(ROOT, "harness", "target", "debug", "conform")
CP = "/opt/veriftools/tla/tla2tools.jar:/opt/veriftools/tla/CommunityModules-deps.jar"
WD = os.path.join(ROOT, "work", "sweep")
os.makedirs(WD, exist_ok=True)
scale = float(sys.argv[3]) if len(sys.argv) > 3 else 1.0
JOBS = [(["record", "arith", "{seed}", str(int(6000 * scale)), "7"], "EvalTrace"), (["record", "types", "{seed}", str(int(4000 * scale)), "7"], "EvalTrace"),
        (["record", "none", "{seed}", str(int(4000 * scale)), "7"], "EvalTrace"), (["record", "lazy", "{seed}", str(int(4000 * scale)), "7"], "EvalTrace"),
        (["record", "paths", "{seed}", str(int(4000 * scale)), "7"], "EvalTrace"), (["record-text", "{seed}", str(int(6000 * scale))], "ParseTrace"),
        (["record-sched", "{seed}", str(int(2000 * scale))], "SchedTrace"), (["record-ser", "{seed}", str(int(10000 * scale))], "SerTrace"),
        (["record-builder", "{seed}", str(int(1500 * scale))], "BuilderTrace")]
bad = 0
subprocess.run(["cargo", "build", "--offline", "--quiet"], cwd=os.path.join(ROOT, "harness"), check=True)
for seed in range(int(sys.argv[1]), int(sys.argv[2]) + 1):
    for args, module in JOBS:
        trace = os.path.join(WD, "t.ndjson")
        cmd = [CONFORM] + [a.format(seed=seed) for a in args] + [trace]
        p = subprocess.run(cmd, stdout=subprocess.PIPE, stderr=subprocess.STDOUT, text=True)
        if p.returncode != 0:
            print("seed %d %s: recorder failed: %s" % (seed, args[0], p.stdout[-300:]), flush=True); bad += 1; continue
        cfg = os.path.join(WD, "t.cfg")
        open(cfg, "w").write("INIT Init\nNEXT Next\nINVARIANT Accepted\nCHECK_DEADLOCK FALSE\n")
        env = dict(os.environ); env["TRACE"] = trace
        p = subprocess.run(["timeout", "1800", "java", "-Xss1g", "-XX:+UseParallelGC", "-cp", CP, "tlc2.TLC", "-workers", "8", "-metadir", os.path.join(WD, "meta"),
                            "-cleanup", "-noGenerateSpecTE", "-config", cfg, module + ".tla"], cwd=os.path.join(ROOT, "spec"), env=env,
                           stdout=subprocess.PIPE, stderr=subprocess.STDOUT, text=True)
        if "No error has been found" in p.stdout:
            continue
        bad += 1
        m = re.findall(r"^i = (\d+)", p.stdout, re.M)
        idx = int(m[-1]) if m else None
        rec = None
        if idx:
            with open(trace) as f:
                for k, line in enumerate(f, 1):
                    if k == idx:
                        rec = line
        keep = os.path.join(WD, "rejected_%d_%s_%s.json" % (seed, args[0], args[1] if args[0] == "record" else ""))
        open(keep, "w").write(rec or p.stdout[-3000:])
        print("seed %d %s %s -> %s REJECTED record %s (kept %s)" % (seed, args[0], args[1] if args[0] == "record" else "", module, idx, keep), flush=True)
        # the log outlives the snapshot of a `vp run`: show the record itself
        print("   RECORD " + (rec or "").strip()[:2500], flush=True)
    print("seed %d done" % seed, flush=True)
sys.exit(1 if bad else 0)
