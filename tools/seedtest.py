#!/usr/bin/env python3
"""Run checks against a seeded change:  seedtest.py <seeded/ID> [Cxx ...|--all]
applies seeded/ID/patch.diff to /repo, runs the quick checks (default: the seed's own property),
restores /repo, records which checks reported a violation in seeded/ID/detection.json"""
import json, os, subprocess, sys, time
ROOT = os.path.dirname(os.path.dirname(os.path.abspath(__file__)))
ALL = ["C%02d" % i for i in range(1, 19)]

def sh(cmd, cwd=None, timeout=3600):
    p = subprocess.run(cmd, cwd=cwd, stdout=subprocess.PIPE, stderr=subprocess.STDOUT, text=True, timeout=timeout)
    return p.returncode, p.stdout

def main():
    d = os.path.abspath(sys.argv[1])
    meta = json.load(open(os.path.join(d, "meta.json")))
    props = sys.argv[2:] or [meta["property"]]
    if props == ["--all"]:
        props = ALL
    rc, out = sh(["git", "-C", "/repo", "status", "--porcelain", "--untracked-files=no"])
    if out.strip():
        print("refusing: /repo has uncommitted changes:\n" + out); return 2
    rc, out = sh(["git", "-C", "/repo", "apply", os.path.join(d, "patch.diff")])
    if rc != 0:
        print("patch does not apply:\n" + out); return 2
    res = {}
    try:
        for p in props:
            t = time.time()
            rc, out = sh([os.path.join(ROOT, "check"), p, "--tier", "quick"], cwd=ROOT)
            viol = [l for l in out.splitlines() if l.startswith("VIOLATION")]
            keys = [l.strip() for l in out.splitlines() if l.strip().startswith("key=")]
            res[p] = {"exit": rc, "violations": len(viol), "first": keys[:3], "wall_s": round(time.time() - t, 1)}
            print("%s %s: exit %d, %d violation(s) %s" % (os.path.basename(d), p, rc, len(viol), keys[:1]), flush=True)
    finally:
        sh(["git", "-C", "/repo", "checkout", "--", "."])
    det = os.path.join(d, "detection.json")
    old = json.load(open(det)) if os.path.exists(det) else {}
    old.update(res)
    json.dump(old, open(det, "w"), indent=1)
    return 0

sys.exit(main())
