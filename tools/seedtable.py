#!/usr/bin/env python3
"""Print the DESIGN.md table of one round of seeded changes:  seedtable.py <round>
(from seeded/<id>/meta.json and detection.json)"""
import json, os, sys
ROOT = os.path.join(os.path.dirname(os.path.dirname(os.path.abspath(__file__))), "seeded")


def cell(s, n):
    s = (s or "").replace("|", "/").replace("\n", " ")
    return s[:n]


def main():
    rnd = int(sys.argv[1])
    print("| id | change | needs | result | first violation reported |")
    print("|---|---|---|---|---|")
    tot = det = 0
    for d in sorted(os.listdir(ROOT)):
        mp = os.path.join(ROOT, d, "meta.json")
        if not os.path.exists(mp):
            continue
        m = json.load(open(mp))
        if m.get("round") != rnd or not m.get("kept"):
            continue
        pid = m["property"]
        dp = os.path.join(ROOT, d, "detection.json")
        r = json.load(open(dp)).get(pid) if os.path.exists(dp) else None
        tot += 1
        if r and r["violations"] > 0 and r["exit"] == 1:
            det += 1
            res = "%s quick: DETECTED (%d)" % (pid, r["violations"])
            first = cell((r.get("first") or [""])[0], 110)
        else:
            res = "%s quick: not detected" % pid if r else "not run"
            first = ""
        print("| %s | %s | %s | %s | %s |" % (d, cell(m.get("summary"), 150), cell(m.get("needs"), 130), res, first))
    print("\n%d of %d detected" % (det, tot))


main()
