#!/usr/bin/env python3
"""Regenerate /verif/MANIFEST.json from the table below (single source of truth for the manifest)."""
import json, os
ROOT = os.path.dirname(os.path.dirname(os.path.abspath(__file__)))
props = [json.loads(l) for l in open(os.path.join(ROOT, "properties.jsonl"))]

MC = "model_checking"
CLAIMED = {
 "C01": dict(technique="TLA+ operator-table spec (Ops.tla) model-checked by TLC; every enumerated cell replayed into reval; random evaluation traces validated by TLC",
   text="TLC enumerates every operator x operand-value cell of the bounded universe (boundary values of all ten types), checks on the specification that no prescribed result lies outside its type's range, and emits each cell with its prescribed outcome; the harness rebuilds each cell through the public constructors and compares under catch_unwind, so a panic, a wrapped/saturated/truncated result or a wrong error class is a mismatch. Exhaustive over the stated pools, sampled beyond.",
   ref="6 C01", note="Trusted: the hand-transcribed operator table (spec/Ops.tla + BigInt/Float/Decimal/Time arithmetic, self-checked by MC_BigInt), TLC, the projection harness/src/model.rs (round-trip self-tested). Pools are finite: values outside spec/Pools.tla are reached only by the random trace tier."),
 "C02": dict(technique="TLA+ operator-table spec model-checked for internal consistency by TLC; every cell replayed into reval with value-level comparison",
   text="Same enumeration as C01 with value-level comparison against the table, plus TLC invariants that check the table against algebraic identities (commutativity, a-b=a+(-b), (a/b)*b+a%b=a, floor/fract/round laws, constructor/extractor inverses, calendar recomposition) so transcription slips do not enter the oracle.",
   ref="6 C02", note="Trusted: Ops.tla as oracle; Float results are the IEEE-754 correctly rounded exact results computed on BigInt triples; tolerances only as listed in DESIGN 4.4."),
 "C03": dict(technique="TLA+ signature table (Sig) vs case analysis checked by TLC; all type-pair cells replayed into reval",
   text="TLC checks the operator case analysis against the independently written declarative signature table for every kind x ordered pair of the ten types x >=3 values per type (including the coincide-after-coercion family) and the harness replays every cell: an unsupported combination must be InvalidType, a supported one must not, equality across types must be false.",
   ref="6 C03", note="Trusted: Sig table and Ops.tla written independently from the property text; exhaustive over the 27-value coincidence pool (quick) plus the boundary pool (thorough)."),
 "C04": dict(technique="TLA+ None-rule table vs case analysis checked by TLC; all None cells replayed into reval",
   text="TLC checks that for every kind, every operand position and every other operand of the pool the operator table equals the declarative None rule (never an error, with exactly the stated exceptions); every such cell is replayed into the code.",
   ref="6 C04", note="Trusted: NoneRule tables in Ops.tla; exhaustive over kinds x positions x pool."),
}
NA = {
 "C19": "stack exhaustion is a resource limit of the host (frame size x thread stack), not a property of an abstract transition system; a TLA+ model can only restate 'depth is unbounded' (DESIGN section 7)",
}

checks = []
for pid, c in CLAIMED.items():
    checks.append({
        "property_id": pid,
        "quick_cmd": "./check %s --tier quick" % pid,
        "thorough_cmd": "./check %s --tier thorough" % pid,
        "evidence_file": "/verif/evidence/%s.json" % pid,
        "replay_cmd_template": "./check replay %s {path}" % pid,
        "engine": "tlc+conform",
        "level_claimed": {"category": MC, "text": c["text"], "design_ref": c["ref"]},
        "level_note": c["note"],
        "technique": c["technique"],
    })
na = []
for p in props:
    if p["id"] in CLAIMED:
        continue
    na.append({"property_id": p["id"], "reason": NA.get(p["id"], "check not built yet (see DESIGN.md section 11 roadmap); not claimed until it is")})
m = {
 "version": 1,
 "setup_cmd": "./check setup",
 "hooks": {"guard": "reval_verif", "enable": "no hooks are needed: every check observes reval through its public API; the harness is built with RUSTFLAGS --cfg reval_verif (harness/.cargo/config.toml), which /repo does not test for",
           "baseline_off_cmd": "cd /repo && cargo test --workspace --no-fail-fast --offline", "source_commits": [], "add_only": True},
 "engines": [{"name": "tlc+conform", "path": "/verif/check", "serves_properties": sorted(CLAIMED),
              "kind_free_text": "explicit TLA+ specification suite (spec/*.tla) checked by TLC; TLC-enumerated cases replayed into reval and recorded reval executions validated against the spec by TLC, through the Rust harness harness/ (binary conform)"}],
 "checks": checks,
 "notes": "Genuine defects found and repaired are listed in known_findings.json (status fixed) and DESIGN.md section 10.",
 "not_applicable": na,
}
json.dump(m, open(os.path.join(ROOT, "MANIFEST.json"), "w"), indent=1)
print("claimed:", sorted(CLAIMED), "not claimed:", [x["property_id"] for x in na])
