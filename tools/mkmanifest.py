#!/usr/bin/env python3
"""Regenerate /verif/MANIFEST.json from the table below (single source of truth for the manifest)."""
import json, os
ROOT = os.path.dirname(os.path.dirname(os.path.abspath(__file__)))
props = [json.loads(l) for l in open(os.path.join(ROOT, "properties.jsonl"))]

MC = "model_checking"
CLAIMED = {
 "C01": dict(technique="TLA+ operator-table spec (Ops.tla) model-checked by TLC; every enumerated cell replayed into reval; random evaluation traces validated by TLC",
   text="TLC enumerates every operator x operand-value cell of the bounded universe (boundary values of all ten types), checks on the specification that no prescribed result lies outside its type's range, and emits each cell with its prescribed outcome; the harness rebuilds each cell through the public constructors and compares under catch_unwind, so a panic, a wrapped/saturated/truncated result or a wrong error class is a mismatch. Exhaustive over the stated pools, sampled beyond.",
   ref="6 C01", note="Trusted: the hand-transcribed operator table (spec/Ops.tla + BigInt/Float/Decimal/Time arithmetic, self-checked by MC_BigInt), TLC, the projection harness/src/model.rs (round-trip self-tested). Pools are finite: values outside spec/Pools.tla are reached only by the random trace tier."),
 "C02": dict(technique="TLA+ operator-table spec model-checked for internal consistency by TLC; every cell replayed into reval with value-level comparison",
   text="Same enumeration as C01 with value-level comparison against the table, plus TLC invariants that check the table against algebraic identities (commutativity, a-b=a+(-b), (a/b)*b+a%b=a, floor/fract/round laws, constructor/extractor inverses, calendar recomposition) so transcription slips do not enter the oracle.",
   ref="6 C02", note="Trusted: Ops.tla as oracle; Float results are the IEEE-754 correctly rounded exact results computed on BigInt triples; tolerances only as listed in DESIGN 4.4 / 13.2. dec(Float), dec(String) and datetime(String) follow step-for-step transcriptions of the library conversions (Decimal.tla Base2ToDecimal / DecFromStr, Ops.tla ParseDateStr), each validated against the code on 10^5 .. 10^6 inputs."),
 "C03": dict(technique="TLA+ signature table (Sig) vs case analysis checked by TLC; all type-pair cells replayed into reval",
   text="TLC checks the operator case analysis against the independently written declarative signature table for every kind x ordered pair of the ten types x >=3 values per type (including the coincide-after-coercion family) and the harness replays every cell: an unsupported combination must be InvalidType, a supported one must not, equality across types must be false.",
   ref="6 C03", note="Trusted: Sig table and Ops.tla written independently from the property text; exhaustive over the 27-value coincidence pool (quick) plus the boundary pool (thorough)."),
 "C04": dict(technique="TLA+ None-rule table vs case analysis checked by TLC; all None cells replayed into reval",
   text="TLC checks that for every kind, every operand position and every other operand of the pool the operator table equals the declarative None rule (never an error, with exactly the stated exceptions); every such cell is replayed into the code.",
   ref="6 C04", note="Trusted: NoneRule tables in Ops.tla; exhaustive over kinds x positions x pool."),
 "C05": dict(technique="TLA+ small-step evaluator machine checked by TLC to refine the denotation (order, laziness, exactly-once); every behaviour replayed into reval with logging user functions",
   text="TLC runs the step machine of spec/Eval.tla on every expression tree with at most L probe leaves (non-cacheable logging user functions) for every assignment of true/false/None/Int/failure, checking at every step that the invocation log stays a prefix of the denotation's log and at completion that outcome and log equal the denotation's; every behaviour (program, assignment, prescribed outcome, prescribed exact invocation sequence) is replayed through the public API and compared.",
   ref="6 C05", note="Trusted: Den in spec/Eval.tla as the statement of the evaluation order; harness ModelFn logs at call entry. L = 3 (quick) / 4 (thorough) leaves, plus four-operand and/or chains and an else-if ladder; the same expression in several rules of one ruleset (MC_C09, full invocation log); deeper trees by the random tier."),
 "C09": dict(technique="TLA+ ruleset state machine (RuleSet.tla) model-checked by TLC; every enumerated ruleset x input x failure pattern replayed through ruleset()..build().evaluate_value",
   text="TLC enumerates every ruleset of at most MaxRules rules over a pool of rule shapes covering each error class and user-function calls, x inputs x failure patterns, and checks one outcome per rule, in order, each equal to the rule evaluated alone with an empty cache; every case is replayed and compared on length, order, the rule carried by each outcome (name and equality with the i-th rule added) and value.",
   ref="6 C09", note="Trusted: RuleSet.tla / Eval.tla; user functions deterministic as the property stipulates. evaluate(&T) vs evaluate_value(serialized T) is covered under C13."),
 "C10": dict(technique="TLA+ path-resolution rule (Resolve) checked against the evaluator spec by TLC; every (input, root, path) replayed into reval",
   text="TLC checks the evaluator specification against an independent structural-recursion statement of path resolution for every nested input x symbol table x root x path up to MaxSteps steps (near-miss keys, off-by-one indices, wrong step kinds, the key `facts`), and every case is replayed; all elements carry distinct values so data from another path is always visible.",
   ref="6 C10", note="Trusted: Resolve in spec/MC_Path.tla as the reading of the property; exhaustive over the stated inputs and paths."),
 "C11": dict(technique="TLA+ ruleset state machine with per-evaluation cache, counter-valued functions; cache invariants model-checked by TLC; every history replayed into reval comparing the full invocation log",
   text="User functions return [argument, ordinal], so every cache decision is observable. TLC checks at-most-once per (evaluation, function, argument), hits see the first result, entries keyed by function and argument, failures not cached, non-cacheable always invoked, fresh cache per evaluation, error names the function; every history (calls spread over rules in every way, consecutive evaluations) is replayed and the exact invocation log and outcomes compared.",
   ref="6 C11", note="Trusted: RuleSet.tla; argument identity is identity of the value as written (0.0 / -0.0 and d1.0 / d1.00 are different arguments, NaN is one). Besides the exhaustive universe: one long history (300 .. 2200 distinct arguments and long arguments differing at their far end) under the same invariants, and every poll interleaving of two overlapping evaluations."),
 "C12": dict(technique="TLA+ ruleset state machine with Poll/Step/Drop actions model-checked by TLC over all interleavings; every poll-granular behaviour replayed with a hand-rolled executor",
   text="TLC explores every interleaving of polls (and, model only, of machine micro-steps) of several evaluations of one ruleset whose user functions suspend 0..K times, with drops at every point, checking outcomes = function of (ruleset, input), ruleset and inputs unchanged, no cache leak, termination under fairness; every poll-granular behaviour is replayed on real futures with a noop waker: Pending/Ready and the log length after every poll, final outcomes, full log.",
   ref="6 C12", note="Trusted: PollEval in RuleSet.tla as the model of one poll; ModelFn suspends by returning Pending exactly `suspend` times (0..2 in the interleaving universes, 70 / 300 in the long-suspension run)."),
 "C15": dict(technique="TLA+ builder state machine model-checked by TLC over all call sequences; every sequence and every candidate function name replayed through the real builder with probe rules",
   text="TLC checks after every builder call: names pairwise distinct, accepted = exactly the successful calls in order, accepted function names well-formed and not reserved, refusals name the offender; every sequence (and each of 75 candidate function names) is replayed on the real builder, then probe rules show exactly which functions and symbols the built ruleset holds.",
   ref="6 C15", note="Trusted: WellFormed over the modelled code-point table (XID classes written out for the modelled alphabet) and the reserved-word list in RuleSet.tla. Besides all short call sequences: long histories (14 / 45 names added almost in order and re-added, batches of 3n symbol entries with overrides)."),
 "C06": dict(technique="TLA+ lexer + grammar + rule-text spec (Lexer/Grammar/RuleText.tla) evaluated by TLC over token- and character-level universes; every text replayed into Expr::parse and Rule::parse under catch_unwind",
   text="TLC enumerates every viable-prefix token sequence up to length N, every string up to length N over a 30-character alphabet that hits every lexer transition, and the literal families with out-of-range numerals in every numeric position and every escape form; the spec's own lexer and reference parser decide accept/reject for each; every text is given to Expr::parse and Rule::parse under catch_unwind and compared (a panic never matches).",
   ref="6 C06", note="Trusted: the token and grammar tables transcribed in Lexer.tla / Grammar.tla (DESIGN appendix B). Bounded lengths for the exhaustive part; a scale family (N parenthesised atoms, 60-deep nesting, N-operand chains, N-step paths, N-element lists and maps, N-character names and strings with a character boundary miss at every byte offset; N = 40, 300, 1100) and random texts beyond."),
 "C07": dict(technique="TLA+ precedence table as data with a reference parser (Grammar.tla); TLC enumerates every viable-prefix token sequence; accept/reject and tree compared with reval's parser",
   text="The precedence/associativity table is data in Grammar.tla and drives a reference recursive-descent parser with the correct-prefix property. TLC enumerates every token sequence up to length N over one representative per token class (and the full alphabet at smaller N), accepted and rejected alike; the harness compares accept/reject and the exact tree, so swapping two levels, flipping an associativity, allowing a chain of contains, or changing a spelling's node flips at least one enumerated sequence.",
   ref="6 C07", note="Trusted: Grammar.tla as the reading of the property's table. N = 5 (quick) / 6 (thorough) tokens exhaustively; operator-pair templates over every spelling; a scale family of long and deep texts (N = 40, 300, 1100)."),
 "C08": dict(technique="TLA+ lexer with literal denotations on exact arithmetic (Lexer.tla) evaluated by TLC over literal families, keyword-collision words and layout interleavings; values compared exactly with reval's parser",
   text="Literal denotations are computed by the spec on exact arithmetic (positional value in four radices with BigInt; floats as the IEEE-754 nearest double of the decimal rational, ties to even; decimals by a step-for-step transcription of the library's text reader: scale kept, and where digits are dropped - beyond 28 fractional digits or 96 bits - within one unit of the last place; the escape table) and compared exactly with what the code parses (floats bitwise, decimals with scale). TLC also enumerates all words up to length N over the keyword-prefix collision alphabet (longest match) and every assignment of 6-10 separators (blanks, tabs, newlines, CRLF, NBSP, comments, nothing) to base token sequences, checking on the spec that layout never changes the tokens.",
   ref="6 C08", note="Trusted: Lexer.tla token classes and Denote; Float.tla rounding. Families are finite samples of the literal space (boundaries, halfway cases, subnormals, the thresholds of the decimal reader) plus a scale family of long texts (N = 40, 300, 1100)."),
 "C14": dict(technique="TLA+ rule-text reader (RuleText.tla) checked by TLC against an independent restatement of the extraction rules; every assembled text replayed into Rule::parse",
   text="TLC assembles every text of at most N lines from a pool of line kinds with LF / CRLF endings and checks the spec's reader against the property restated directly (expression = what the text after the @-prefix parses to; one entry per key, last occurrence; name/description precedence; missing name only without comment lines); each text goes to Rule::parse and name(), description(), iter_metadata(), get_metadata(), expr() or the error class are compared.",
   ref="6 C14", note="Trusted: RuleText.tla. Line kinds include comment-looking lines inside multi-line string literals, strings ending in an escaped backslash and comments holding a lone quote; lone-CR line breaks only inside string constants."),
 "C16": dict(technique="TLA+ printer + lexer + grammar: round trip model-checked by TLC on the spec; every tree printed and re-parsed by reval; the printed texts validated by TLC as a trace against the spec's lexer and grammar",
   text="TLC enumerates the trees of the parser's image (every kind in every child position of every other kind, literal leaves from the literal families) and checks on the specification that printing then parsing is the identity; the harness prints every tree with the code's Display, parses the text back with the code and compares; the recorded (tree, text) pairs are then validated by TLC: the specification's lexer and grammar must read each printed text as exactly that tree (so grouping, operators, literal values and string contents are all pinned).",
   ref="6 C16", note="Trusted: Lexer.tla / Grammar.tla as the reading of valid rule syntax. 'Evaluates identically' follows from tree equality and determinism (C12)."),
 "C13": dict(technique="TLA+ model of the serde data model (Ser.tla: terms, Image, Bad) checked by TLC; every term interpreted against reval's ValueSerializer, RuleSet::evaluate and serde_json",
   text="TLC enumerates terms of the serde data model (all kinds, integer widths at their limits incl. u128 above i128::MAX, non-finite floats, nested/empty containers, maps with every kind of key, the four variant shapes, failing Serialize impls) and checks Image against an independent statement of when serialization must fail, exactness of integers and option collapse; a term interpreter in the harness calls exactly the corresponding Serializer methods; results of serialize(ValueSerializer), of RuleSet::evaluate(&term) (whole-call failure iff the input cannot be serialized, same outcome as the image otherwise) and of serde_json::to_value are compared under catch_unwind.",
   ref="6 C13", note="Trusted: Ser.tla (only string keys are supported map keys, as the serializer documents); serde_json as the reference image for JSON-representable data."),
 "C17": dict(technique="TLA+ conversion table (Convert.tla: ranges, kinds, first-failure rule) checked by TLC; every (target, source) replayed through TryFrom<Value> and From<T>",
   text="TLC enumerates every target type x source value (all boundaries +-1 of all ten integer widths, whole range of the 8/16-bit targets, every Value variant) and container targets with a non-convertible element at each position, checking range-exactness and kind-exactness on the spec; the harness extracts with TryFrom<Value>, injects back with From<T>, and compares outcome class, error payload and the representation of the round-tripped value.",
   ref="6 C17", note="Trusted: Convert.tla. f32 / usize have only the From direction in the crate; Vec<Value> has no TryFrom (noted in the harness)."),
 "C18": dict(technique="compile probes (rustc decides Send/Sync) + TLA+ ruleset machine model-checked over all micro-step interleavings + real multi-threaded runs recorded and validated by TLC as traces (RuleSetTrace.tla)",
   text="Two parts. (a) The auto-trait sentence is decided by the compiler: a probe crate with static Send/Sync assertions for every public type and for the futures of Expr::evaluate, RuleSet::evaluate and evaluate_value must compile (a control probe without the bounds separates an API change from a violation). (b) TLC explores every interleaving of machine micro-steps of three evaluations over one ruleset (outcomes = function of ruleset and input, no leak, no side effect), and real concurrent runs (16 threads, tokio multi-thread runtime and std threads, shared Arc<RuleSet>, user functions that yield) are recorded with per-evaluation ids and a global atomic order; TLC validates every recorded evaluation against the specification and the harness compares with a sequential run.",
   ref="6 C18", note="C18a is not a TLA+ result (stated in DESIGN section 7): it is the compile-time precondition of the binding. Real thread interleavings are sampled, not enumerated."),
}
NA = {
 "C19": "stack exhaustion is a resource limit of the host (frame size x thread stack), not a property of an abstract transition system; a TLA+ model can only restate 'depth is unbounded' (DESIGN section 7)",
}

checks = []
for pid, c in CLAIMED.items():
    checks.append({
        "property_id": pid,
        "quick_cmd": "./check %s --tier quick" % pid,
        "thorough_cmd": "./check %s --tier thorough" % pid,
        "evidence_file": "/verif/evidence/%s.json" % pid,
        "replay_cmd_template": "./check replay %s {path}" % pid,
        "engine": "tlc+conform",
        "level_claimed": {"category": MC, "text": c["text"], "design_ref": c["ref"]},
        "level_note": c["note"],
        "technique": c["technique"],
    })
na = []
for p in props:
    if p["id"] in CLAIMED:
        continue
    na.append({"property_id": p["id"], "reason": NA.get(p["id"], "check not built yet (see DESIGN.md section 11 roadmap); not claimed until it is")})
m = {
 "version": 1,
 "setup_cmd": "./check setup",
 "hooks": {"guard": "reval_verif", "enable": "RUSTFLAGS=--cfg reval_verif (harness/.cargo/config.toml sets it for the harness; ./check C02 runs `cargo test` in /repo with it and REVAL_VERIF_TRACE=<file>). The hook (src/verif.rs + two call sites) is add-only and inert unless that environment variable is set; all other checks observe reval through its public API only",
           "baseline_off_cmd": "cd /repo && cargo test --workspace --no-fail-fast --offline", "source_commits": ["9cd2cc5", "a25f989", "7c1fca6"], "add_only": True},
 "engines": [{"name": "tlc+conform", "path": "/verif/check", "serves_properties": sorted(CLAIMED),
              "kind_free_text": "explicit TLA+ specification suite (spec/*.tla) checked by TLC; TLC-enumerated cases replayed into reval and recorded reval executions validated against the spec by TLC, through the Rust harness harness/ (binary conform)"}],
 "checks": checks,
 "notes": "Genuine defects found and repaired are listed in known_findings.json (status fixed) and DESIGN.md section 10.",
 "not_applicable": na,
}
json.dump(m, open(os.path.join(ROOT, "MANIFEST.json"), "w"), indent=1)
print("claimed:", sorted(CLAIMED), "not claimed:", [x["property_id"] for x in na])
