#!/usr/bin/env python3
"""Collect the sub-agents' deliverables (/tmp/wt_<id>/MUTATION) into /verif/seeded/<id>-<a|b>/ and
verify each one independently in a scratch worktree: it applies, compiles, the 211 tests pass, the
demonstration fails with the change and passes without it.   usage: collect_seeds.py C01 C02 ..."""
import json, os, shutil, subprocess, sys

ROOT = "/verif/seeded"
VER = "/tmp/wt_verify"

def sh(cmd, cwd=None, timeout=1800):
    p = subprocess.run(cmd, cwd=cwd, shell=isinstance(cmd, str), stdout=subprocess.PIPE, stderr=subprocess.STDOUT, text=True, timeout=timeout)
    return p.returncode, p.stdout

def main():
    if not os.path.isdir(VER):
        rc, out = sh("git -C /repo worktree add -q --detach %s HEAD" % VER)
        assert rc == 0, out
    for pid in sys.argv[1:]:
        rnd = os.environ.get("ROUND", "1")
        src = {"1": "/tmp/wt_%s/MUTATION", "2": "/tmp/w2_%s/MUTATION", "3": "/tmp/w3_%s/MUTATION", "4": "/tmp/w4_%s/MUTATION", "5": "/tmp/w5_%s/MUTATION", "6": "/tmp/w6_%s/MUTATION", "7": "/tmp/w7_%s/MUTATION"}[rnd] % pid
        if not os.path.isdir(src):
            print(pid, "no deliverables"); continue
        meta = json.load(open(os.path.join(src, "meta.json")))
        for ab in ("a", "b"):
            d = os.path.join(ROOT, "%s-%s" % (pid, {"1": {"a": "a", "b": "b"}, "2": {"a": "c", "b": "d"}, "3": {"a": "e", "b": "f"}, "4": {"a": "g", "b": "h"}, "5": {"a": "i", "b": "j"}, "6": {"a": "k", "b": "l"}, "7": {"a": "m", "b": "n"}}[rnd][ab]))
            if not os.path.exists(os.path.join(src, ab + ".diff")):
                continue
            os.makedirs(d, exist_ok=True)
            shutil.copy(os.path.join(src, ab + ".diff"), os.path.join(d, "patch.diff"))
            shutil.copy(os.path.join(src, "demo_%s.rs" % ab), os.path.join(d, "demo.rs"))
            # verify in the scratch worktree
            sh("git checkout -q -- . && git clean -fdq -e target", cwd=VER)
            os.makedirs(os.path.join(VER, "examples"), exist_ok=True)
            shutil.copy(os.path.join(d, "demo.rs"), os.path.join(VER, "examples", "seed_demo.rs"))
            rc_clean, out_clean = sh("cargo run --offline --quiet --example seed_demo", cwd=VER)
            rc_apply, out_apply = sh("git apply %s" % os.path.join(d, "patch.diff"), cwd=VER)
            rc_test, out_test = sh("cargo test --workspace --no-fail-fast --offline 2>&1 | grep -E '^test result'", cwd=VER)
            passed = sum(int(l.split("ok. ")[1].split(" passed")[0]) for l in out_test.splitlines() if "ok. " in l)
            failed = "FAILED" in out_test or "failed;" in out_test and any(" 0 failed" not in l for l in out_test.splitlines() if "test result" in l)
            rc_demo, out_demo = sh("cargo run --offline --quiet --example seed_demo", cwd=VER)
            sh("git checkout -q -- . && git clean -fdq -e target", cwd=VER)
            ok = rc_clean == 0 and rc_apply == 0 and passed >= 211 and not failed and rc_demo != 0
            m = {"property": pid, "variant": os.path.basename(d).split("-")[1], "round": int(rnd), "summary": meta.get(ab, {}).get("summary"), "needs": meta.get(ab, {}).get("needs"),
                 "files": meta.get(ab, {}).get("files"),
                 "verified": {"applies": rc_apply == 0, "tests_passed_with_change": passed, "tests_failed_with_change": bool(failed),
                              "demo_exit_without_change": rc_clean, "demo_exit_with_change": rc_demo,
                              "how": "scratch worktree /tmp/wt_verify: cargo run --example seed_demo (clean) ; git apply patch.diff ; cargo test --workspace --no-fail-fast --offline ; cargo run --example seed_demo"},
                 "kept": ok}
            json.dump(m, open(os.path.join(d, "meta.json"), "w"), indent=1)
            print(pid, ab, "KEPT" if ok else "REJECTED", "tests=%d demo clean=%d mutated=%d" % (passed, rc_clean, rc_demo), flush=True)
            if not ok:
                open(os.path.join(d, "verify.log"), "w").write(out_clean[-2000:] + "\n----\n" + out_apply + out_test + "\n----\n" + out_demo[-2000:])

main()
