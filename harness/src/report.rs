//! Replay report: counts, mismatches (keyed for known_findings.json), samples.
use serde_json::{json, Value as J};
use std::collections::BTreeMap;

#[derive(Default)]
pub struct Report {
    pub cases: usize,
    pub evaluations: usize,
    pub skipped: usize,
    pub nontrivial: usize,
    pub mismatches: Vec<J>,
    pub mismatch_count: usize,
    pub by_key: BTreeMap<String, usize>,
    pub tool_errors: Vec<String>,
    pub samples: Vec<J>,
}

impl Report {
    pub fn tool_error(&mut self, e: String) {
        if self.tool_errors.len() < 20 {
            self.tool_errors.push(e);
        }
    }
    pub fn mismatch(&mut self, key: &str, mut detail: J) {
        self.cases += 1;
        self.mismatch_count += 1;
        let n = self.by_key.entry(key.to_string()).or_insert(0);
        *n += 1;
        // keep the first few examples of every key, all keys
        if *n <= 3 && self.mismatches.len() < 2000 {
            detail["key"] = J::from(key);
            self.mismatches.push(detail);
        }
    }
    pub fn case_ok(&mut self, nontrivial: bool, sample: impl FnOnce() -> J) {
        self.cases += 1;
        if nontrivial {
            self.nontrivial += 1;
            if self.samples.len() < 5 && self.nontrivial % 997 == 1 {
                self.samples.push(sample());
            }
        }
    }
    pub fn merge(&mut self, o: Report) {
        self.cases += o.cases;
        self.evaluations += o.evaluations;
        self.skipped += o.skipped;
        self.nontrivial += o.nontrivial;
        self.mismatch_count += o.mismatch_count;
        for m in o.mismatches {
            let k = m["key"].as_str().unwrap_or("").to_string();
            let have = self.mismatches.iter().filter(|x| x["key"] == k.as_str()).count();
            if have < 3 && self.mismatches.len() < 2000 {
                self.mismatches.push(m);
            }
        }
        for (k, n) in o.by_key {
            *self.by_key.entry(k).or_insert(0) += n;
        }
        for e in o.tool_errors {
            self.tool_error(e);
        }
        for s in o.samples {
            if self.samples.len() < 6 {
                self.samples.push(s);
            }
        }
    }
    pub fn to_json(&self) -> J {
        json!({
            "cases": self.cases, "evaluations": self.evaluations, "skipped_unmodelled": self.skipped,
            "distinct_nontrivial": self.nontrivial, "mismatch_count": self.mismatch_count,
            "mismatch_keys": self.by_key, "mismatches": self.mismatches, "tool_errors": self.tool_errors,
            "samples": self.samples,
        })
    }
}
