//! conform: the conformance harness binding the TLA+ specification suite to reval's public API.
//!   conform selftest
//!   conform replay <engine> <tlc-output-or-ndjson> <report.json>
mod conv;
mod exec;
mod gen;
mod gensched;
mod gentext;
mod model;
mod ops;
mod parse;
mod print;
mod report;
mod scenario;
mod ser;

use serde_json::Value as J;
use std::io::{BufRead, BufReader};

/// iterate over the JSON cases in a TLC output file: lines `"CASE {...}"` (a TLA+ string literal)
/// or plain NDJSON lines
pub fn for_each_case(path: &str, mut f: impl FnMut(&J)) -> Result<usize, String> {
    let file = std::fs::File::open(path).map_err(|e| format!("{path}: {e}"))?;
    let mut n = 0;
    for line in BufReader::new(file).lines() {
        let line = line.map_err(|e| e.to_string())?;
        let text: String = if line.starts_with("\"CASE ") {
            let s: String = serde_json::from_str(&line).map_err(|e| format!("bad CASE literal: {e}: {line}"))?;
            s[5..].to_string()
        } else if line.starts_with('{') {
            line
        } else {
            continue;
        };
        let j: J = parse_json(&text).map_err(|e| format!("bad case json: {e}: {text}"))?;
        f(&j);
        n += 1;
    }
    Ok(n)
}

/// JSON without serde_json's nesting limit (cases of the scale universes are hundreds of levels deep; the replay
/// threads run on large stacks)
pub fn parse_json(text: &str) -> Result<J, serde_json::Error> {
    use serde::Deserialize;
    let mut de = serde_json::Deserializer::from_str(text);
    de.disable_recursion_limit();
    let j = J::deserialize(&mut de)?;
    de.end()?;
    Ok(j)
}

pub fn parse_case_line(line: &str) -> Result<J, String> {
    if line.starts_with("\"CASE ") {
        let s: String = serde_json::from_str(line).map_err(|e| format!("bad CASE literal: {e}"))?;
        parse_json(&s[5..]).map_err(|e| format!("bad case json: {e}"))
    } else {
        parse_json(line).map_err(|e| format!("bad case json: {e}"))
    }
}

fn main() {
    std::panic::set_hook(Box::new(|_| {})); // panics in the code under test are data
    let args: Vec<String> = std::env::args().collect();
    let code = match run(&args) {
        Ok(c) => c,
        Err(e) => {
            eprintln!("conform: tool error: {e}");
            2
        }
    };
    std::process::exit(code);
}

fn run(args: &[String]) -> Result<i32, String> {
    match args.get(1).map(|s| s.as_str()) {
        Some("selftest") => {
            let n = model::selftest()?;
            println!("model round trip ok on {n} values");
            Ok(0)
        }
        Some("replay") => {
            let engine = args.get(2).ok_or("engine")?;
            let input = args.get(3).ok_or("input")?;
            let out = args.get(4).ok_or("report path")?;
            if engine == "print" {
                // sequential: also writes the printed texts as a trace (arg 5) for TLC validation
                let trace_path = args.get(5).ok_or("print: trace path")?;
                let mut rep = report::Report::default();
                let mut trace: Vec<J> = Vec::new();
                let n = for_each_case(input, |case| print::replay_print(case, &mut rep, &mut trace))?;
                if n == 0 {
                    return Err(format!("no cases in {input}"));
                }
                let mut out_s = String::new();
                for t in &trace {
                    out_s.push_str(&serde_json::to_string(t).unwrap());
                    out_s.push('\n');
                }
                std::fs::write(trace_path, out_s).map_err(|e| e.to_string())?;
                std::fs::write(out, serde_json::to_string(&rep.to_json()).unwrap()).map_err(|e| e.to_string())?;
                println!("replayed {} cases ({} evaluations), {} mismatches, {} tool errors", rep.cases, rep.evaluations, rep.mismatch_count, rep.tool_errors.len());
                return Ok(if !rep.tool_errors.is_empty() { 2 } else if rep.mismatch_count > 0 { 1 } else { 0 });
            }
            // replay on all cores, in batches of lines so that memory stays bounded (cases are independent)
            let threads = std::env::var("CONFORM_THREADS").ok().and_then(|s| s.parse().ok()).unwrap_or(14usize).max(1);
            let file = std::fs::File::open(input).map_err(|e| format!("{input}: {e}"))?;
            let mut lines = BufReader::new(file).lines();
            let mut rep = report::Report::default();
            let mut n = 0usize;
            loop {
                let mut batch: Vec<String> = Vec::new();
                for line in lines.by_ref() {
                    let line = line.map_err(|e| e.to_string())?;
                    if line.starts_with("\"CASE ") || line.starts_with('{') {
                        batch.push(line);
                        if batch.len() >= 40_000 {
                            break;
                        }
                    }
                }
                if batch.is_empty() {
                    break;
                }
                n += batch.len();
                // (at least 400 cases per thread: small universes run on ONE thread, so that every case shares its history with all the others)
                // (a batch of fewer than 100 cases is a scale universe - few, very large cases: spread them out)
                let chunk = if batch.len() < 100 { (batch.len() + threads - 1) / threads } else { ((batch.len() + threads - 1) / threads).max(400) };
                let engine_s = engine.clone();
                let parts: Vec<report::Report> = std::thread::scope(|sc| {
                    let hs: Vec<_> = batch
                        .chunks(chunk.max(1))
                        .map(|part| {
                            let engine = engine_s.clone();
                            std::thread::Builder::new().stack_size(1 << 30).spawn_scoped(sc, move || {
                                let mut rep = report::Report::default();
                                for line in part {
                                    let case = match parse_case_line(line) {
                                        Ok(c) => c,
                                        Err(e) => {
                                            rep.tool_error(e);
                                            continue;
                                        }
                                    };
                                    let case = &case;
                                    match engine.as_str() {
                                        "ops" => ops::replay_case(case, &mut rep),
                                        "prog" => scenario::replay_prog(case, &mut rep),
                                        "scenario" => scenario::replay_scenario(case, &mut rep),
                                        "session" => scenario::replay_session(case, &mut rep),
                                        "parse" => parse::replay_parse(case, &mut rep),
                                        "ser" => ser::replay_ser(case, &mut rep),
                                        "conv" => conv::replay_conv(case, &mut rep),
                                        _ => rep.tool_error(format!("unknown engine {engine}")),
                                    }
                                }
                                if engine == "ops" {
                                    // every cell once more, ordered by operands: the same operand then meets the other
                                    // operators back to back (an outcome is a function of the cell, not of what ran before)
                                    let mut again: Vec<(String, J)> = part.iter().filter_map(|l| parse_case_line(l).ok()).map(|c| (format!("{}|{}", c["a"], c["k"]), c)).collect();
                                    again.sort_by(|x, y| x.0.cmp(&y.0));
                                    for (_, case) in &again {
                                        ops::replay_case_again(case, &mut rep);
                                    }
                                }
                                if engine == "parse" {
                                    // every text once more, after all the others of this chunk have been parsed
                                    let cases: Vec<J> = part.iter().filter_map(|l| parse_case_line(l).ok()).collect();
                                    for case in &cases {
                                        parse::replay_parse_again(case, &mut rep);
                                    }
                                    // a text the parser REJECTS must not influence the texts parsed after it: after each of
                                    // (at most 120) rejected texts, four accepted texts of the chunk are parsed again
                                    let accepted: Vec<&J> = cases.iter().filter(|c| c["x"]["ok"].as_bool() == Some(true)).collect();
                                    if !accepted.is_empty() {
                                        for (k, r) in cases.iter().filter(|c| c["x"]["ok"].as_bool() == Some(false)).take(120).enumerate() {
                                            for d in 0..4usize {
                                                parse::replay_parse_after(r, accepted[(k * 4 + d) % accepted.len()], &mut rep, (k + d) % 2 == 0);
                                            }
                                        }
                                    }
                                }
                                rep
                            }).expect("spawn")
                        })
                        .collect();
                    hs.into_iter()
                        .map(|h| {
                            h.join().unwrap_or_else(|_| {
                                let mut r = report::Report::default();
                                r.tool_error("replay thread panicked".into());
                                r
                            })
                        })
                        .collect()
                });
                for p in parts {
                    rep.merge(p);
                }
                if engine == "parse" {
                    parse::hammer(&batch, &mut rep);
                }
            }
            if n == 0 {
                return Err(format!("no cases in {input}"));
            }
            std::fs::write(out, serde_json::to_string(&rep.to_json()).unwrap()).map_err(|e| e.to_string())?;
            println!("replayed {} cases ({} evaluations), {} mismatches, {} tool errors", rep.cases, rep.evaluations, rep.mismatch_count, rep.tool_errors.len());
            Ok(if !rep.tool_errors.is_empty() { 2 } else if rep.mismatch_count > 0 { 1 } else { 0 })
        }
        Some("record-sched") | Some("record-ser") | Some("record-builder") => {
            // conform record-sched|record-ser <seed> <n> <trace.ndjson>
            let seed: u64 = args.get(2).ok_or("seed")?.parse().map_err(|_| "seed")?;
            let n: usize = args.get(3).ok_or("n")?.parse().map_err(|_| "n")?;
            let trace = args.get(4).ok_or("trace path")?;
            let recs = match args[1].as_str() {
                "record-sched" => gensched::record_scenarios(seed, n)?,
                "record-builder" => gensched::record_builder(seed, n)?,
                _ => gensched::record_ser(seed, n)?,
            };
            let mut lines = String::new();
            for r in &recs {
                lines.push_str(&serde_json::to_string(r).unwrap());
                lines.push('\n');
            }
            std::fs::write(trace, lines).map_err(|e| e.to_string())?;
            println!("recorded {} records", recs.len());
            Ok(0)
        }
        Some("record-text") => {
            // conform record-text <seed> <n> <trace.ndjson>
            let seed: u64 = args.get(2).ok_or("seed")?.parse().map_err(|_| "seed")?;
            let n: usize = args.get(3).ok_or("n")?.parse().map_err(|_| "n")?;
            let trace = args.get(4).ok_or("trace path")?;
            let recs = gentext::record_texts(seed, n);
            let mut lines = String::new();
            let mut accepted = 0;
            for r in &recs {
                if r["x"]["ok"] == true {
                    accepted += 1;
                }
                lines.push_str(&serde_json::to_string(r).unwrap());
                lines.push('\n');
            }
            std::fs::write(trace, lines).map_err(|e| e.to_string())?;
            println!("recorded {} texts ({} accepted as expressions)", recs.len(), accepted);
            Ok(0)
        }
        Some("record") => {
            // conform record <profile> <seed> <n> <depth> <trace.ndjson>
            let profile = args.get(2).ok_or("profile")?;
            let seed: u64 = args.get(3).ok_or("seed")?.parse().map_err(|_| "seed")?;
            let n: usize = args.get(4).ok_or("n")?.parse().map_err(|_| "n")?;
            let depth: u32 = args.get(5).ok_or("depth")?.parse().map_err(|_| "depth")?;
            let trace = args.get(6).ok_or("trace path")?;
            let (recs, panics) = gen::record(seed, n, profile, depth)?;
            let mut lines = String::new();
            for r in &recs {
                lines.push_str(&serde_json::to_string(r).unwrap());
                lines.push('\n');
            }
            std::fs::write(trace, lines).map_err(|e| e.to_string())?;
            println!("recorded {} evaluations ({} panics)", recs.len(), panics.len());
            Ok(0)
        }
        _ => Err("usage: conform selftest | replay <engine> <cases> <report.json>".into()),
    }
}
