//! Engine `parse` (C06, C07, C08, C14): text -> Expr::parse / Rule::parse under catch_unwind,
//! compared with what the specification's lexer + grammar + rule-text reader prescribe.

use crate::exec::panic_msg;
use crate::model::*;
use crate::report::Report;
use reval::expr::{Expr, Index};
use reval::prelude::Rule;
use reval::value::Value;
use serde_json::{json, Value as J};
use std::panic::{catch_unwind, AssertUnwindSafe};

fn big_index(j: &J) -> Result<usize, String> {
    let m = unlimbs(&j["big"])?;
    usize::try_from(m).map_err(|_| "index beyond usize".to_string())
}

/// literal comparison: bitwise floats (up to the sign of zero: -0 is written f-0 and must stay -0),
/// decimals with scale when the spec says the written scale is kept
fn literal_matches(exp: &J, got: &Value) -> Result<(), String> {
    let expv = from_model(&exp["v"]).map_err(|e| format!("TOOL: literal: {e}"))?;
    let ok = match (&expv, got) {
        (Value::Float(a), Value::Float(b)) => a.to_bits() == b.to_bits() || (a.is_nan() && b.is_nan()),
        (Value::Decimal(a), Value::Decimal(b)) => match exp.get("ap").and_then(|x| x.as_str()) {
            Some("scale") => a == b && a.scale() == b.scale(),
            Some(ap) => value_matches(&expv, got) || matches(&json!({"ok": true, "v": exp["v"], "ap": ap}), &Obs::Ok(got.clone())).is_ok(),
            None => a == b,
        },
        _ => value_matches(&expv, got),
    };
    if ok { Ok(()) } else { Err(format!("literal differs: expected {expv:?}, got {got:?}")) }
}

/// structural comparison of a parsed tree with the spec's tree
pub fn tree_matches(exp: &J, got: &Expr) -> Result<(), String> {
    let k = exp["k"].as_str().ok_or("TOOL: tree without kind")?;
    let gk = expr_kind(got);
    if gk != k {
        return Err(format!("node kind {gk}, expected {k}"));
    }
    match (k, got) {
        ("val", Expr::Value(v)) => literal_matches(exp, v),
        ("ref", Expr::Reference(n)) | ("sym", Expr::Symbol(n)) => {
            if cps(n) == exp["n"] { Ok(()) } else { Err(format!("name {n:?} differs")) }
        }
        ("call", Expr::Function(n, a)) => {
            if cps(n) != exp["n"] {
                return Err(format!("function name {n:?} differs"));
            }
            tree_matches(&exp["a"][0], a)
        }
        ("index", Expr::Index(a, i)) => {
            let same = match (exp["i"]["k"].as_str(), i) {
                (Some("f"), Index::Map(n)) => cps(n) == exp["i"]["name"],
                (Some("i"), Index::Vec(x)) => exp["i"]["i"].as_u64() == Some(*x as u64),
                (Some("I"), Index::Vec(x)) => big_index(&exp["i"]).map(|b| b == *x).unwrap_or(false),
                _ => false,
            };
            if !same {
                return Err(format!("index {i:?} differs from {}", exp["i"]));
            }
            tree_matches(&exp["a"][0], a)
        }
        ("map", Expr::Map(m)) => {
            let kv = exp["kv"].as_array().ok_or("TOOL: kv")?;
            if kv.len() != m.len() {
                return Err(format!("map has {} entries, expected {}", m.len(), kv.len()));
            }
            for (e, (k, v)) in kv.iter().zip(m.iter()) {
                if cps(k) != e[0] {
                    return Err(format!("map key {k:?} differs"));
                }
                tree_matches(&e[1], v)?;
            }
            Ok(())
        }
        _ => {
            let ea = exp["a"].as_array().ok_or("TOOL: a")?;
            let children: Vec<&Expr> = children_of(got);
            if ea.len() != children.len() {
                return Err(format!("{} children, expected {}", children.len(), ea.len()));
            }
            for (e, c) in ea.iter().zip(children) {
                tree_matches(e, c)?;
            }
            Ok(())
        }
    }
}

pub fn children_of(e: &Expr) -> Vec<&Expr> {
    use Expr::*;
    match e {
        Value(_) | Reference(_) | Symbol(_) => vec![],
        Function(_, a) | Index(a, _) | Not(a) | Neg(a) | Some(a) | None(a) | Int(a) | Float(a) | Dec(a) | DateTime(a) | Duration(a)
        | UpperCase(a) | LowerCase(a) | Trim(a) | Floor(a) | Round(a) | Fract(a) | Year(a) | Month(a) | Week(a) | Day(a) | Hour(a)
        | Minute(a) | Second(a) => vec![a],
        If(a, b, c) => vec![a, b, c],
        Map(m) => m.values().collect(),
        Vec(v) => v.iter().collect(),
        Mult(a, b) | Div(a, b) | Rem(a, b) | Add(a, b) | Sub(a, b) | Equals(a, b) | NotEquals(a, b) | GreaterThan(a, b)
        | GreaterThanEquals(a, b) | LessThan(a, b) | LessThanEquals(a, b) | And(a, b) | Or(a, b) | BitAnd(a, b) | BitOr(a, b)
        | BitXor(a, b) | Contains(a, b) => vec![a, b],
    }
}

fn rule_matches(exp: &J, got: &Result<Result<Rule, reval::parse::Error>, String>) -> Result<(), String> {
    let k = exp["k"].as_str().ok_or("TOOL: rule expectation without k")?;
    match got {
        Err(p) => Err(format!("Rule::parse panicked: {p}")),
        Ok(Err(e)) => match (k, e) {
            ("parse", reval::parse::Error::RuleParseError(_)) | ("parse", reval::parse::Error::ExprParseError(_)) => Ok(()),
            ("missing", reval::parse::Error::MissingRuleName) => Ok(()),
            _ => Err(format!("Rule::parse failed with {e:?}, spec says {k}")),
        },
        Ok(Ok(r)) => {
            if k != "ok" {
                return Err(format!("Rule::parse accepted the text (name {:?}), spec says {k}", r.name()));
            }
            if cps(r.name()) != exp["name"] {
                return Err(format!("rule name {:?}, expected {:?}", r.name(), uncps(&exp["name"])));
            }
            let em = exp["meta"].as_array().ok_or("TOOL: meta")?;
            let gm: Vec<(&str, &Value)> = r.iter_metadata().collect();
            if em.len() != gm.len() {
                return Err(format!("{} metadata entries, expected {}: {:?}", gm.len(), em.len(), gm));
            }
            for (e, (gk, gv)) in em.iter().zip(gm.iter()) {
                if cps(gk) != e[0] {
                    return Err(format!("metadata key {gk:?}, expected {:?}", uncps(&e[0])));
                }
                let ev = from_model(&e[1]).map_err(|x| format!("TOOL: meta value: {x}"))?;
                // metadata values are constants as written: compared in their exact representation (the scale of a
                // decimal, the sign of a float zero), not merely numerically
                if !value_matches(&ev, gv) || to_model(gv) != e[1] {
                    return Err(format!("metadata {gk:?} = {gv:?}, expected {ev:?} (exact representation: {} vs {})", to_model(gv), e[1]));
                }
                if let Some(s) = r.get_metadata(gk) {
                    if !value_matches(&ev, s) {
                        return Err(format!("get_metadata({gk:?}) disagrees with iter_metadata"));
                    }
                }
            }
            // description(): the "description" entry when it is a string
            let want_desc = em.iter().find(|e| e[0] == cps("description")).and_then(|e| if e[1]["t"] == "Str" { uncps(&e[1]["cs"]).ok() } else { Option::None });
            if r.description().map(|s| s.to_string()) != want_desc {
                return Err(format!("description() = {:?}, expected {:?}", r.description(), want_desc));
            }
            tree_matches(&exp["expr"], r.expr()).map_err(|w| format!("rule expression: {w}"))
        }
    }
}

pub fn first_token_classes(text: &str) -> String {
    text.split_whitespace().take(4).collect::<Vec<_>>().join(" ")
}

pub fn replay_parse(case: &J, rep: &mut Report) {
    let text = match uncps(&case["text"]) {
        Ok(t) => t,
        Err(e) => return rep.tool_error(format!("text: {e}")),
    };
    replay_parse_once(case, &text, rep, "");
}

/// parse the same text once more (a parse result is a function of the text, whatever was parsed before)
pub fn replay_parse_again(case: &J, rep: &mut Report) {
    if let Ok(text) = uncps(&case["text"]) {
        replay_parse_once(case, &text, rep, ":again");
    }
}

/// parse a text the parser rejects, then an accepted one: the second result is still the prescribed one
pub fn replay_parse_after(rejected: &J, accepted: &J, rep: &mut Report, as_rule: bool) {
    if let (Ok(r), Ok(a)) = (uncps(&rejected["text"]), uncps(&accepted["text"])) {
        if as_rule {
            let _ = catch_unwind(AssertUnwindSafe(|| Rule::parse(&r)));
        } else {
            let _ = catch_unwind(AssertUnwindSafe(|| Expr::parse(&r)));
        }
        replay_parse_once(accepted, &a, rep, ":after-a-rejected-text");
    }
}

/// eight threads parse the first 600 texts of the batch at full speed, at the same time: no panic, and the same verdict
/// (accepted / rejected) as prescribed - whatever the parser shares between calls must be safe to share between threads
pub fn hammer(batch: &[String], rep: &mut Report) {
    let cases: Vec<(String, bool)> = batch.iter().take(600).filter_map(|l| crate::parse_case_line(l).ok())
        .filter_map(|c| Some((uncps(&c["text"]).ok()?, c["x"]["ok"].as_bool()?))).collect();
    if cases.len() < 2 {
        return;
    }
    let bad: std::sync::Mutex<Option<(String, String)>> = std::sync::Mutex::new(None);
    std::thread::scope(|sc| {
        for t in 0..8usize {
            let cases = &cases;
            let bad = &bad;
            std::thread::Builder::new().stack_size(1 << 28).spawn_scoped(sc, move || {
                for k in 0..cases.len() {
                    // every parse is of a text never seen before (a trailing comment unique to thread and step: layout
                    // does not change the verdict of an accepted text)
                    let (base, ok) = &cases[(k * 7 + t * 13) % cases.len()];
                    let text = &format!("{base}\n//{t}_{k}");
                    let why = match catch_unwind(AssertUnwindSafe(|| Expr::parse(text).is_ok())).map_err(panic_msg) {
                        Err(p) => Some(format!("Expr::parse panicked while other threads were parsing: {p}")),
                        Ok(false) if *ok => Some("Expr::parse rejected, while other threads were parsing, an accepted text followed by a comment line".to_string()),
                        Ok(_) => None,
                    };
                    if let Some(w) = why {
                        let mut b = bad.lock().unwrap();
                        if b.is_none() {
                            *b = Some((text.clone(), w));
                        }
                        return;
                    }
                }
            }).expect("spawn");
        }
    });
    rep.evaluations += 8 * cases.len();
    if let Some((text, why)) = bad.into_inner().unwrap() {
        let kind = if why.contains("panicked") { "panic" } else { "differs" };
        rep.mismatch(&format!("parse:concurrent:{kind}"), json!({"engine": "parse", "text": text, "why": why}));
    }
}

fn replay_parse_once(case: &J, text: &str, rep: &mut Report, suffix: &str) {
    let text = text.to_string();
    let got = catch_unwind(AssertUnwindSafe(|| Expr::parse(&text))).map_err(panic_msg);
    let gotr = catch_unwind(AssertUnwindSafe(|| Rule::parse(&text))).map_err(panic_msg);
    rep.evaluations += 2;
    let exp_ok = case["x"]["ok"].as_bool().unwrap_or(false);
    let key_base = case["key"].as_str().unwrap_or("parse");
    let mut verdict: Result<(), String> = match (&got, exp_ok) {
        (Err(p), _) => Err(format!("Expr::parse panicked: {p}")),
        (Ok(Ok(e)), true) => tree_matches(&case["x"]["t"], e).map_err(|w| format!("tree differs: {w}; parsed as {e}")),
        (Ok(Ok(e)), false) => Err(format!("accepted (as {e}) but the grammar rejects it")),
        (Ok(Err(_)), false) => Ok(()),
        (Ok(Err(e)), true) => Err(format!("rejected ({e}) but the grammar derives it")),
    };
    let mut stage = "expr";
    if verdict.is_ok() {
        if let Some(r) = case.get("rule") {
            verdict = rule_matches(r, &gotr);
            stage = "rule";
        } else if let Err(p) = &gotr {
            verdict = Err(format!("Rule::parse panicked: {p}"));
            stage = "rule";
        }
    }
    match verdict {
        Ok(()) if !suffix.is_empty() => {}
        Ok(()) => rep.case_ok(exp_ok || case["rule"]["k"] == "ok", || json!({"text": text, "expr_accepted": exp_ok, "rule": case["rule"]["k"]})),
        Err(why) if why.starts_with("TOOL:") => rep.tool_error(why),
        Err(why) => {
            let kind = if why.contains("panicked") { "panic" } else if why.starts_with("accepted") { "accepts" } else if why.starts_with("rejected") { "rejects" } else { "differs" };
            rep.mismatch(&format!("{key_base}:{stage}:{kind}{suffix}"), json!({"engine": "parse", "text": text, "case": case, "why": why}))
        }
    }
}
