//! (G) replay of operator-table cells enumerated by TLC from MC_Ops (C01-C04).
//! Each cell is rebuilt through the public constructors, evaluated under catch_unwind and compared
//! with the outcome the spec prescribes.  Every cell is run in two shapes: operands as literal
//! value nodes, and operands read from a Map input through references.

use crate::exec::block_on;
use crate::model::*;
use crate::report::Report;
use reval::expr::Expr;
use reval::value::Value;
use serde_json::{json, Value as J};
use std::collections::BTreeMap;

fn operand(j: &J) -> Result<Value, String> {
    from_model(j)
}

pub fn build(kind: &str, ops: &[Expr], case: &J) -> Result<Expr, String> {
    Ok(match kind {
        "if" => Expr::iif(ops[0].clone(), Expr::value(1), Expr::value(2)),
        // the same condition over other branch pairs: the two boolean literals (either way round), identical branches
        "if:tf" => Expr::iif(ops[0].clone(), Expr::value(true), Expr::value(false)),
        "if:ft" => Expr::iif(ops[0].clone(), Expr::value(false), Expr::value(true)),
        "if:same" => Expr::iif(ops[0].clone(), Expr::value(7), Expr::value(7)),
        "index" => Expr::index(ops[0].clone(), index_from_model(&case["a"][1])?),
        k if UNARY.contains(&k) => unary(k, ops[0].clone()).unwrap(),
        k if BINARY.contains(&k) => binary(k, ops[0].clone(), ops[1].clone()).unwrap(),
        k => return Err(format!("unknown kind {k}")),
    })
}

/// the expected outcome of the built expression, from the spec's outcome of the cell
pub fn expected(kind: &str, case: &J) -> J {
    let x = &case["x"];
    if kind.starts_with("if") && x["ok"].as_bool() == Some(true) {
        let b = x["v"]["b"].as_bool().unwrap_or(false);
        let v = match kind { "if:tf" => Value::Bool(b), "if:ft" => Value::Bool(!b), "if:same" => Value::Int(7), _ => Value::Int(if b { 1 } else { 2 }) };
        json!({"ok": true, "v": to_model(&v)})
    } else {
        x.clone()
    }
}

pub fn sig_of(case: &J) -> String {
    case["a"].as_array().map(|a| a.iter().map(|v| v["t"].as_str().or(v["k"].as_str()).unwrap_or("?")).collect::<Vec<_>>().join(",")).unwrap_or_default()
}

pub fn class_of(x: &J) -> String {
    if x["ok"].as_bool() == Some(true) { "Ok".into() } else { x["e"].as_str().unwrap_or("?").to_string() }
}

pub fn eval_obs(e: &Expr, input: &Value) -> Obs {
    obs_of(block_on(e.evaluate(input)))
}

pub fn replay_case(case: &J, rep: &mut Report) {
    replay_case_pass(case, rep, false)
}

/// the same cell once more, in another order of the chunk (see main.rs): nothing is counted, only mismatches are
pub fn replay_case_again(case: &J, rep: &mut Report) {
    replay_case_pass(case, rep, true)
}

fn replay_case_pass(case: &J, rep: &mut Report, again: bool) {
    let kind = case["k"].as_str().unwrap_or("?").to_string();
    if kind == "if" {
        for variant in ["if:tf", "if:ft", "if:same"] {
            replay_kind(case, variant, rep, true);
        }
    }
    replay_kind(case, &kind, rep, again)
}

fn replay_kind(case: &J, kind: &str, rep: &mut Report, again: bool) {
    let kind = kind.to_string();
    let exp = expected(&kind, case);
    if exp.get("ap").and_then(|a| a.as_str()) == Some("unmodelled") {
        if !again {
            rep.skipped += 1;
        }
        return;
    }
    let n_operands = if kind == "index" { 1 } else { case["a"].as_array().map(|a| a.len()).unwrap_or(0) };
    let mut vals = Vec::new();
    for i in 0..n_operands {
        match operand(&case["a"][i]) {
            Ok(v) => vals.push(v),
            Err(e) => return rep.tool_error(format!("cannot build operand: {e}")),
        }
    }
    let key = format!("ops:{}:{}:{}", kind, sig_of(case), class_of(&exp));
    // shape 1: literal operands, None input
    let lits: Vec<Expr> = vals.iter().cloned().map(Expr::Value).collect();
    // shape 2: operands through references into a Map input
    let names = ["l", "r"];
    let refs: Vec<Expr> = (0..vals.len()).map(|i| Expr::reff(names[i])).collect();
    let input = Value::Map(vals.iter().enumerate().map(|(i, v)| (names[i].to_string(), v.clone())).collect::<BTreeMap<_, _>>());
    for (shape, ops, inp) in [("literal", &lits, &Value::None), ("ref", &refs, &input)] {
        let e = match build(&kind, ops, case) {
            Ok(e) => e,
            Err(e) => return rep.tool_error(e),
        };
        // the same expression object is evaluated twice, then a clone of it: an outcome is a function of expression and
        // input, whatever was evaluated before
        let e2 = e.clone();
        for (pass, ex) in [("first evaluation", &e), ("second evaluation of the same expression", &e), ("evaluation of a clone", &e2)] {
            let obs = eval_obs(ex, inp);
            rep.evaluations += 1;
            if let Err(why) = matches(&exp, &obs) {
                if why.starts_with("TOOL:") {
                    return rep.tool_error(why);
                }
                rep.mismatch(&key, json!({"engine": "ops", "shape": shape, "pass": pass, "case": case, "expr": e.to_string(), "expected": exp, "observed": obs_to_model(&obs), "why": why}));
                return;
            }
        }
    }
    // shape 3: operands through the symbol table of a ruleset (`:l`, `:r`), the expression as its only rule
    {
        let syms: Vec<Expr> = (0..vals.len()).map(|i| Expr::symbol(names[i])).collect();
        let e = match build(&kind, &syms, case) {
            Ok(e) => e,
            Err(e) => return rep.tool_error(e),
        };
        let mut b = reval::prelude::ruleset();
        for (i, v) in vals.iter().enumerate() {
            b = b.with_symbol(names[i], v.clone());
        }
        let rs = match b.with_rule(reval::prelude::Rule::new("cell", BTreeMap::new(), e.clone())) {
            Ok(b) => b.build(),
            Err(e) => return rep.tool_error(format!("with_rule: {e}")),
        };
        let obs = match block_on(rs.evaluate_value(&Value::None)) {
            Err(p) => Obs::Panic(p),
            Ok(Err(err)) => classify(&err),
            Ok(Ok(mut outs)) if outs.len() == 1 => match outs.remove(0).value { Ok(v) => Obs::Ok(v), Err(e) => classify(&e) },
            Ok(Ok(outs)) => Obs::Panic(format!("{} outcomes for one rule", outs.len())),
        };
        rep.evaluations += 1;
        if let Err(why) = matches(&exp, &obs) {
            if why.starts_with("TOOL:") {
                return rep.tool_error(why);
            }
            rep.mismatch(&key, json!({"engine": "ops", "shape": "symbol", "case": case, "expr": e.to_string(), "expected": exp, "observed": obs_to_model(&obs), "why": why}));
            return;
        }
    }
    if !again {
        rep.case_ok(class_of(&exp) != "Type", || json!({"case": case, "observed": "as expected"}));
    }
}
