//! Engine `conv` (C17): TryFrom<Value> for the Rust target types, and the way back (From<T>).

use crate::exec::panic_msg;
use crate::model::*;
use crate::report::Report;
use chrono::{DateTime, TimeDelta, Utc};
use reval::value::Value;
use rust_decimal::Decimal;
use serde_json::{json, Value as J};
use std::collections::{BTreeMap, HashMap};
use std::panic::{catch_unwind, AssertUnwindSafe};

type R = Result<Value, reval::Error>;

/// extract T from v and inject it back: the round trip
fn scalar(target: &str, v: Value) -> Result<R, String> {
    macro_rules! rt {
        ($t:ty) => {
            <$t>::try_from(v).map(|x| Value::from(x))
        };
    }
    Ok(match target {
        "i8" => rt!(i8),
        "i16" => rt!(i16),
        "i32" => rt!(i32),
        "i64" => rt!(i64),
        "i128" => rt!(i128),
        "u8" => rt!(u8),
        "u16" => rt!(u16),
        "u32" => rt!(u32),
        "u64" => rt!(u64),
        // there is no From<u128> for Value (it would not be total): compare numerically
        "u128" => u128::try_from(v).and_then(|x| i128::try_from(x).map(Value::Int).map_err(reval::Error::from)),
        "f64" => rt!(f64),
        "bool" => rt!(bool),
        "string" => rt!(String),
        "decimal" => rt!(Decimal),
        "datetime" => rt!(DateTime<Utc>),
        "duration" => rt!(TimeDelta),
        "value" => Ok(v),
        t => return Err(format!("unknown target {t}")),
    })
}

fn container(c: &str, target: &str, v: Value) -> Result<R, String> {
    macro_rules! ct {
        ($t:ty) => {
            match c {
                "vec" => Vec::<$t>::try_from(v).map(|x| Value::from(x)),
                "hmap" => HashMap::<String, $t>::try_from(v).map(|x| Value::from(x)),
                "bmap" => BTreeMap::<String, $t>::try_from(v).map(|x| Value::from(x)),
                _ => return Err(format!("unknown container {c}")),
            }
        };
    }
    Ok(match target {
        "i8" => ct!(i8),
        "u64" => ct!(u64),
        "i128" => ct!(i128),
        "string" => ct!(String),
        "value" => match c {
            // (there is no TryFrom<Value> for Vec<Value>: the blanket impl needs Error = reval::Error)
            "hmap" => HashMap::<String, Value>::try_from(v).map(Value::from),
            "bmap" => BTreeMap::<String, Value>::try_from(v).map(Value::from),
            _ => return Err(format!("unknown container {c}")),
        },
        t => return Err(format!("unknown element target {t}")),
    })
}

/// the way in only: build the Rust value that the model value denotes and convert it with From<T>
fn inject(target: &str, v: &Value) -> Result<R, String> {
    Ok(Ok(match (target, v) {
        ("usize", Value::Int(n)) => Value::from(usize::try_from(*n).map_err(|_| format!("{n} is not a usize"))?),
        ("f32", Value::Float(f)) => {
            let x = *f as f32;
            if !(x as f64 == *f || f.is_nan()) {
                return Err(format!("{f} is not an f32"));
            }
            Value::from(x)
        }
        _ => return Err(format!("cannot inject {v:?} as {target}")),
    }))
}

/// what the conversion named by the case does (used by the random recorder)
pub fn observe(case: &J, _rep: &mut Report) -> Result<Obs, String> {
    let target = case["target"].as_str().unwrap_or("?").to_string();
    let cont = case["container"].as_str().unwrap_or("").to_string();
    let src = from_model(&case["src"])?;
    let r = catch_unwind(AssertUnwindSafe(|| if cont == "inject" { inject(&target, &src) } else if cont.is_empty() { scalar(&target, src.clone()) } else { container(&cont, &target, src.clone()) })).map_err(panic_msg);
    Ok(match r {
        Err(p) => Obs::Panic(p),
        Ok(Err(e)) => return Err(e),
        Ok(Ok(Ok(v))) => Obs::Ok(v),
        Ok(Ok(Err(e))) => classify(&e),
    })
}

pub fn replay_conv(case: &J, rep: &mut Report) {
    let target = case["target"].as_str().unwrap_or("?").to_string();
    let cont = case["container"].as_str().unwrap_or("").to_string();
    let src = match from_model(&case["src"]) {
        Ok(v) => v,
        Err(e) => return rep.tool_error(format!("src: {e}")),
    };
    let exp = &case["x"];
    let key = format!("conv:{}{}:{}:{}", if cont.is_empty() { String::new() } else { format!("{cont}<") }, target, case["src"]["t"].as_str().unwrap_or("?"), crate::ops::class_of(exp));
    rep.evaluations += 1;
    let s2 = src.clone();
    let r = catch_unwind(AssertUnwindSafe(|| {
        if cont == "inject" {
            inject(&target, &s2)
        } else if cont.is_empty() {
            scalar(&target, s2)
        } else {
            container(&cont, &target, s2)
        }
    }))
    .map_err(panic_msg);
    let obs = match r {
        Err(p) => Obs::Panic(p),
        Ok(Err(e)) => return rep.tool_error(e),
        Ok(Ok(Ok(v))) => Obs::Ok(v),
        Ok(Ok(Err(e))) => classify(&e),
    };
    let mut verdict = matches(exp, &obs);
    if verdict.is_ok() {
        if let Obs::Ok(v) = &obs {
            // lossless: representation-level identity (scale of decimals, bits of floats)
            if to_model(v) != case["src"] && !(matches!(v, Value::Float(f) if f.is_nan())) {
                verdict = Err(format!("round trip changed the value: {} -> {}", case["src"], to_model(v)));
            }
        }
    }
    match verdict {
        Ok(()) => rep.case_ok(true, || json!({"target": target, "container": cont, "src": format!("{src:?}"), "result": obs_to_model(&obs)})),
        Err(why) if why.starts_with("TOOL:") => rep.tool_error(why),
        Err(why) => rep.mismatch(&key, json!({"engine": "conv", "case": case, "src": format!("{src:?}"), "observed": obs_to_model(&obs), "why": why})),
    }
}
