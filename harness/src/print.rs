//! Engine `print` (C16): print a tree of the parser's image with the code, parse the text back with
//! the code, compare.  The printed texts are also written out as a trace that TLC validates against
//! the specification's lexer and grammar (PrintTrace.tla).

use crate::exec::panic_msg;
use crate::model::*;
use crate::parse::tree_matches;
use crate::report::Report;
use reval::expr::Expr;
use serde_json::{json, Value as J};
use std::panic::{catch_unwind, AssertUnwindSafe};

pub fn leaf_class(tree: &J) -> String {
    // kinds on the path to the (single) non-`a` leaf, and the class of a literal leaf
    let mut kinds = Vec::new();
    fn walk(e: &J, out: &mut Vec<String>) {
        let k = e["k"].as_str().unwrap_or("?");
        if k == "val" {
            let v = &e["v"];
            let t = v["t"].as_str().unwrap_or("?");
            let extra = match t {
                "Float" => v["f"]["c"].as_str().unwrap_or("").to_string(),
                "Str" => {
                    let cs: Vec<u64> = v["cs"].as_array().map(|a| a.iter().filter_map(|c| c.as_u64()).collect()).unwrap_or_default();
                    if cs.contains(&34) || cs.contains(&92) { "esc".into() } else { "plain".into() }
                }
                _ => String::new(),
            };
            out.push(format!("{t}{}", if extra.is_empty() { String::new() } else { format!("/{extra}") }));
            return;
        }
        out.push(k.to_string());
        if let Some(a) = e["a"].as_array() {
            for c in a {
                if c["k"] != "ref" {
                    walk(c, out);
                }
            }
        }
        if let Some(kv) = e["kv"].as_array() {
            for c in kv {
                if c[1]["k"] != "ref" {
                    walk(&c[1], out);
                }
            }
        }
    }
    walk(tree, &mut kinds);
    kinds.join(">")
}

pub fn replay_print(case: &J, rep: &mut Report, trace: &mut Vec<J>) {
    let tree = &case["tree"];
    let e = match expr_from_model(tree) {
        Ok(e) => e,
        Err(err) => return rep.tool_error(format!("tree: {err}")),
    };
    let key = format!("print:{}", leaf_class(tree));
    rep.evaluations += 1;
    let text = match catch_unwind(AssertUnwindSafe(|| e.to_string())) {
        Ok(t) => t,
        Err(p) => return rep.mismatch(&key, json!({"engine": "print", "case": case, "why": format!("Display panicked: {}", panic_msg(p))})),
    };
    trace.push(json!({"tree": tree, "text": cps(&text)}));
    // reading the rendering back must not depend on what the parser was given before: first a text it rejects in the
    // middle of a string constant (and one it rejects inside a \u escape), then the rendering
    let _ = catch_unwind(AssertUnwindSafe(|| Expr::parse("b == \"overdue\\q\"")));
    let _ = catch_unwind(AssertUnwindSafe(|| Expr::parse("\"ab\\u{4\"")));
    let back = catch_unwind(AssertUnwindSafe(|| Expr::parse(&text))).map_err(panic_msg);
    let mut verdict = match &back {
        Err(p) => Err(format!("parsing the rendering panicked: {p}")),
        Ok(Err(err)) => Err(format!("the rendering does not parse: {err}")),
        Ok(Ok(p)) => tree_matches(tree, p)
            .map_err(|w| format!("the rendering parses to a different expression ({w}): {p:?}"))
            .and_then(|_| if *p == e || has_nan(tree) { Ok(()) } else { Err("re-parsed expression is not equal (PartialEq) to the original".to_string()) }),
    };
    // the rendering is also the body of a rule: Rule::parse of a name line plus the rendering holds the same expression
    if verdict.is_ok() {
        let rule_text = format!("// printed\n{text}");
        verdict = match catch_unwind(AssertUnwindSafe(|| reval::prelude::Rule::parse(&rule_text))).map_err(panic_msg) {
            Err(p) => Err(format!("Rule::parse of the rendering panicked: {p}")),
            Ok(Err(err)) => Err(format!("the rendering does not parse as the body of a rule: {err}")),
            Ok(Ok(r)) => tree_matches(tree, r.expr()).map_err(|w| format!("as the body of a rule the rendering parses to a different expression ({w}): {:?}", r.expr())),
        };
    }
    match verdict {
        Ok(()) => rep.case_ok(true, || json!({"expr": format!("{e:?}"), "rendering": text})),
        Err(why) if why.starts_with("TOOL:") => rep.tool_error(why),
        Err(why) => rep.mismatch(&key, json!({"engine": "print", "case": case, "rendering": text, "why": why})),
    }
}

fn has_nan(_tree: &J) -> bool {
    false
}
