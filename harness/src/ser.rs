//! Engine `ser` (C13): terms of the serde data model, interpreted by calling exactly the
//! corresponding `Serializer` method, serialized (a) with reval's ValueSerializer, (b) through
//! RuleSet::evaluate(&term), (c) with serde_json; compared with the specification's Image.

use crate::exec::{block_on, leak, panic_msg};
use crate::model::*;
use crate::report::Report;
use reval::prelude::*;
use reval::value::ser::ValueSerializer;
use serde::ser::{Error as _, SerializeMap, SerializeSeq, SerializeStruct, SerializeStructVariant, SerializeTuple, SerializeTupleStruct, SerializeTupleVariant};
use serde::{Serialize, Serializer};
use serde_json::{json, Value as J};
use std::collections::BTreeMap;
use std::panic::{catch_unwind, AssertUnwindSafe};

#[derive(Debug, Clone)]
pub enum Term {
    Bool(bool),
    I8(i8), I16(i16), I32(i32), I64(i64), I128(i128),
    U8(u8), U16(u16), U32(u32), U64(u64), U128(u128),
    F32(f32), F64(f64),
    Char(char),
    Str(String),
    Bytes(Vec<u8>),
    None,
    Some(Box<Term>),
    Unit,
    UnitStruct(&'static str),
    UnitVariant(&'static str, &'static str),
    NewtypeStruct(&'static str, Box<Term>),
    NewtypeVariant(&'static str, &'static str, Box<Term>),
    Seq(Vec<Term>),
    Tuple(Vec<Term>),
    TupleStruct(&'static str, Vec<Term>),
    TupleVariant(&'static str, &'static str, Vec<Term>),
    Map(Vec<(Term, Term)>),
    MapKV(Vec<(Term, Term)>),
    /// only as the value of a struct field: the field is announced with skip_field
    Skipped,
    Struct(&'static str, Vec<(&'static str, Term)>),
    StructVariant(&'static str, &'static str, Vec<(&'static str, Term)>),
    Fail(String),
    /// serializes as the first term for human-readable formats, as the second for compact ones
    HumanReadable(Box<Term>, Box<Term>),
}

impl Serialize for Term {
    fn serialize<S: Serializer>(&self, s: S) -> Result<S::Ok, S::Error> {
        match self {
            Term::Bool(b) => s.serialize_bool(*b),
            Term::I8(v) => s.serialize_i8(*v),
            Term::I16(v) => s.serialize_i16(*v),
            Term::I32(v) => s.serialize_i32(*v),
            Term::I64(v) => s.serialize_i64(*v),
            Term::I128(v) => s.serialize_i128(*v),
            Term::U8(v) => s.serialize_u8(*v),
            Term::U16(v) => s.serialize_u16(*v),
            Term::U32(v) => s.serialize_u32(*v),
            Term::U64(v) => s.serialize_u64(*v),
            Term::U128(v) => s.serialize_u128(*v),
            Term::F32(v) => s.serialize_f32(*v),
            Term::F64(v) => s.serialize_f64(*v),
            Term::Char(c) => s.serialize_char(*c),
            Term::Str(v) => s.serialize_str(v),
            Term::Bytes(b) => s.serialize_bytes(b),
            Term::None => s.serialize_none(),
            Term::Some(x) => s.serialize_some(&**x),
            Term::Unit => s.serialize_unit(),
            Term::UnitStruct(n) => s.serialize_unit_struct(n),
            Term::UnitVariant(n, v) => s.serialize_unit_variant(n, 0, v),
            Term::NewtypeStruct(n, x) => s.serialize_newtype_struct(n, &**x),
            Term::NewtypeVariant(n, v, x) => s.serialize_newtype_variant(n, 0, v, &**x),
            Term::Seq(xs) => {
                let mut q = s.serialize_seq(Some(xs.len()))?;
                for x in xs {
                    q.serialize_element(x)?;
                }
                q.end()
            }
            Term::Tuple(xs) => {
                let mut q = s.serialize_tuple(xs.len())?;
                for x in xs {
                    q.serialize_element(x)?;
                }
                q.end()
            }
            Term::TupleStruct(n, xs) => {
                let mut q = s.serialize_tuple_struct(n, xs.len())?;
                for x in xs {
                    q.serialize_field(x)?;
                }
                q.end()
            }
            Term::TupleVariant(n, v, xs) => {
                let mut q = s.serialize_tuple_variant(n, 0, v, xs.len())?;
                for x in xs {
                    q.serialize_field(x)?;
                }
                q.end()
            }
            Term::Map(kv) => {
                let mut q = s.serialize_map(Some(kv.len()))?;
                for (k, v) in kv {
                    q.serialize_entry(k, v)?;
                }
                q.end()
            }
            Term::MapKV(kv) => {
                let mut q = s.serialize_map(None)?;
                for (k, v) in kv {
                    q.serialize_key(k)?;
                    q.serialize_value(v)?;
                }
                q.end()
            }
            Term::Struct(n, fs) => {
                let mut q = s.serialize_struct(n, fs.len())?;
                for (k, v) in fs {
                    if let Term::Skipped = v {
                        q.skip_field(k)?;
                    } else {
                        q.serialize_field(k, v)?;
                    }
                }
                q.end()
            }
            Term::StructVariant(n, v, fs) => {
                let mut q = s.serialize_struct_variant(n, 0, v, fs.len())?;
                for (k, x) in fs {
                    if let Term::Skipped = x {
                        q.skip_field(k)?;
                    } else {
                        q.serialize_field(k, x)?;
                    }
                }
                q.end()
            }
            Term::Skipped => Err(S::Error::custom("a skipped field has no value")),
            Term::Fail(m) => Err(S::Error::custom(m)),
            Term::HumanReadable(a, b) => {
                if s.is_human_readable() {
                    a.serialize(s)
                } else {
                    b.serialize(s)
                }
            }
        }
    }
}

fn st(j: &J) -> Result<&'static str, String> {
    Ok(leak(uncps(j)?))
}

fn big(j: &J) -> Result<(i64, u128), String> {
    Ok((j["s"].as_i64().ok_or("n.s")?, unlimbs(&j["m"])?))
}

pub fn term_from_model(j: &J) -> Result<Term, String> {
    let k = j["k"].as_str().ok_or("term kind")?;
    let xs = |f: &str| -> Result<Vec<Term>, String> { j[f].as_array().ok_or("xs")?.iter().map(term_from_model).collect() };
    let fields = || -> Result<Vec<(&'static str, Term)>, String> {
        j["fields"].as_array().ok_or("fields")?.iter().map(|f| Ok((st(&f[0])?, term_from_model(&f[1])?))).collect()
    };
    macro_rules! int {
        ($t:ty, $variant:path) => {{
            let (s, m) = big(&j["n"])?;
            let v: i128 = if s < 0 { -(i128::try_from(m).map_err(|_| "int")?) } else { i128::try_from(m).map_err(|_| "int")? };
            $variant(<$t>::try_from(v).map_err(|_| format!("{} does not fit {}", v, stringify!($t)))?)
        }};
    }
    Ok(match k {
        "bool" => Term::Bool(j["b"].as_bool().ok_or("b")?),
        "i8" => int!(i8, Term::I8),
        "i16" => int!(i16, Term::I16),
        "i32" => int!(i32, Term::I32),
        "i64" => int!(i64, Term::I64),
        "i128" => {
            let (s, m) = big(&j["n"])?;
            Term::I128(if s < 0 { (m as i128).wrapping_neg() } else { i128::try_from(m).map_err(|_| "i128")? })
        }
        "u8" => int!(u8, Term::U8),
        "u16" => int!(u16, Term::U16),
        "u32" => int!(u32, Term::U32),
        "u64" => int!(u64, Term::U64),
        "u128" => Term::U128(big(&j["n"])?.1),
        "f32" => Term::F32(f64_from_model(&j["f"])? as f32),
        "f64" => Term::F64(f64_from_model(&j["f"])?),
        "char" => Term::Char(char::from_u32(j["c"].as_u64().ok_or("c")? as u32).ok_or("char")?),
        "str" => Term::Str(uncps(&j["cs"])?),
        "bytes" => Term::Bytes(j["bs"].as_array().ok_or("bs")?.iter().map(|b| b.as_u64().unwrap_or(0) as u8).collect()),
        "none" => Term::None,
        "some" => Term::Some(Box::new(term_from_model(&j["x"])?)),
        "unit" => Term::Unit,
        "unit_struct" => Term::UnitStruct(st(&j["name"])?),
        "unit_variant" => Term::UnitVariant(st(&j["name"])?, st(&j["variant"])?),
        "newtype_struct" => Term::NewtypeStruct(st(&j["name"])?, Box::new(term_from_model(&j["x"])?)),
        "newtype_variant" => Term::NewtypeVariant(st(&j["name"])?, st(&j["variant"])?, Box::new(term_from_model(&j["x"])?)),
        "seq" => Term::Seq(xs("xs")?),
        "tuple" => Term::Tuple(xs("xs")?),
        "tuple_struct" => Term::TupleStruct(st(&j["name"])?, xs("xs")?),
        "tuple_variant" => Term::TupleVariant(st(&j["name"])?, st(&j["variant"])?, xs("xs")?),
        "skipped" => Term::Skipped,
        "mapkv" => Term::MapKV(j["kv"].as_array().ok_or("kv")?.iter().map(|kv| Ok((term_from_model(&kv[0])?, term_from_model(&kv[1])?))).collect::<Result<_, String>>()?),
        "map" => Term::Map(j["kv"].as_array().ok_or("kv")?.iter().map(|kv| Ok((term_from_model(&kv[0])?, term_from_model(&kv[1])?))).collect::<Result<_, String>>()?),
        "struct" => Term::Struct(st(&j["name"])?, fields()?),
        "struct_variant" => Term::StructVariant(st(&j["name"])?, st(&j["variant"])?, fields()?),
        "fail" => Term::Fail(uncps(&j["msg"])?),
        "hr" => Term::HumanReadable(Box::new(term_from_model(&j["x"])?), Box::new(term_from_model(&j["y"])?)),
        _ => return Err(format!("unknown term kind {k}")),
    })
}

/// serde_json value -> reval Value, structurally (for the coincidence check)
fn json_to_value(j: &J) -> Value {
    match j {
        J::Null => Value::None,
        J::Bool(b) => Value::Bool(*b),
        J::Number(n) => {
            if let Some(i) = n.as_i64() {
                Value::Int(i as i128)
            } else if let Some(u) = n.as_u64() {
                Value::Int(u as i128)
            } else {
                Value::Float(n.as_f64().unwrap_or(f64::NAN))
            }
        }
        J::String(s) => Value::String(s.clone()),
        J::Array(a) => Value::Vec(a.iter().map(json_to_value).collect()),
        J::Object(o) => Value::Map(o.iter().map(|(k, v)| (k.clone(), json_to_value(v))).collect::<BTreeMap<_, _>>()),
    }
}

/// the kind of the innermost varied sub-term (the MC universe puts it last in every container,
/// or in the key position of a one-entry map)
fn core_kind(j: &J) -> String {
    let k = j["k"].as_str().unwrap_or("?");
    if j.get("x").is_some() {
        return core_kind(&j["x"]);
    }
    if let Some(xs) = j.get("xs").and_then(|x| x.as_array()) {
        if let Some(l) = xs.last() {
            return core_kind(l);
        }
    }
    if let Some(kv) = j.get("kv").and_then(|x| x.as_array()) {
        if let Some(l) = kv.last() {
            if l[0]["k"] != "str" {
                return format!("key-{}", core_kind(&l[0]));
            }
            return core_kind(&l[1]);
        }
    }
    if let Some(fs) = j.get("fields").and_then(|x| x.as_array()) {
        if let Some(l) = fs.last() {
            return core_kind(&l[1]);
        }
    }
    k.to_string()
}

pub fn replay_ser(case: &J, rep: &mut Report) {
    let term = match term_from_model(&case["term"]) {
        Ok(t) => t,
        Err(e) => return rep.tool_error(format!("term: {e}")),
    };
    let exp = &case["x"];
    let key = format!("ser:{}:{}", core_kind(&case["term"]), crate::ops::class_of(exp));
    rep.evaluations += 1;
    // (a) ValueSerializer
    let direct = catch_unwind(AssertUnwindSafe(|| term.serialize(ValueSerializer))).map_err(panic_msg);
    let obs = obs_of(direct);
    let mut verdict = matches(exp, &obs).map_err(|w| format!("serialize(ValueSerializer): {w}"));
    // floats must be unchanged bit for bit, not merely equal
    if verdict.is_ok() {
        if let (Obs::Ok(v), true) = (&obs, exp["ok"].as_bool() == Some(true)) {
            if to_model(v) != exp["v"] {
                verdict = Err(format!("image differs in representation: {} vs expected {}", to_model(v), exp["v"]));
            }
        }
    }
    // (a') once more: the image is a function of the data, not of what was serialized before
    if verdict.is_ok() {
        let again = obs_of(catch_unwind(AssertUnwindSafe(|| term.serialize(ValueSerializer))).map_err(panic_msg));
        verdict = matches(exp, &again).map_err(|w| format!("second serialize(ValueSerializer) of the same data: {w}"));
    }
    // (b) RuleSet::evaluate(&term) with the rule `facts`: same outcome as evaluate_value(image); the call as a
    // whole fails only when the input cannot be serialized
    if verdict.is_ok() {
        // ONE ruleset per thread for all cases, and the input object re-used in place: first a decoy is evaluated, then the
        // same variable is overwritten with the real data and evaluated (what evaluate(&T) returns is a function of
        // the data it is given now, not of an earlier call or of where the data lives)
        thread_local! {
            static WHOLE: RuleSet = ruleset().with_rule(Rule::new("whole", BTreeMap::new(), Expr::reff("facts"))).unwrap().build();
        }
        let r = WHOLE.with(|rs| {
            let mut slot = Term::Str("decoy".to_string());
            let _ = block_on(rs.evaluate(&slot));
            slot = term.clone();
            block_on(rs.evaluate(&slot)).map(|r| r.map(|outs| outs.into_iter().map(|o| o.value).collect::<Vec<_>>()))
        });
        verdict = match (r, exp["ok"].as_bool() == Some(true)) {
            (Err(p), _) => Err(format!("RuleSet::evaluate panicked: {p}")),
            (Ok(Err(e)), false) => match classify(&e) {
                Obs::Err { variant, .. } if variant == "ValueSerializationError" => Ok(()),
                o => Err(format!("RuleSet::evaluate failed with {:?}, expected a serialization error", obs_to_model(&o))),
            },
            (Ok(Err(e)), true) => Err(format!("RuleSet::evaluate failed as a whole ({e}) although the input serializes")),
            (Ok(Ok(_)), false) => Err("RuleSet::evaluate succeeded although the input cannot be serialized".into()),
            (Ok(Ok(outs)), true) => {
                if outs.len() != 1 {
                    Err(format!("{} outcomes", outs.len()))
                } else {
                    let o = match &outs[0] {
                        Ok(v) => Obs::Ok(v.clone()),
                        Err(e) => classify(e),
                    };
                    matches(exp, &o).map_err(|w| format!("RuleSet::evaluate(&term) outcome of rule `facts`: {w}"))
                }
            }
        };
    }
    // (c) coincidence with serde_json on JSON-representable data
    if verdict.is_ok() && case["json"].as_bool() == Some(true) && exp["ok"].as_bool() == Some(true) {
        match serde_json::to_value(&term) {
            Ok(jv) => {
                let want = json_to_value(&jv);
                if let Obs::Ok(v) = &obs {
                    if !value_matches(&want, v) {
                        verdict = Err(format!("image {v:?} does not coincide with the serde_json image {jv}"));
                    }
                }
            }
            Err(_) => {} // serde_json itself refuses (e.g. a map key it cannot stringify): nothing to coincide with
        }
    }
    match verdict {
        Ok(()) => rep.case_ok(true, || json!({"term": format!("{term:?}"), "image": obs_to_model(&obs)})),
        Err(why) if why.starts_with("TOOL:") => rep.tool_error(why),
        Err(why) => rep.mismatch(&key, json!({"engine": "ser", "case": case, "term": format!("{term:?}"), "observed": obs_to_model(&obs), "why": why})),
    }
}
