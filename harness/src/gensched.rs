//! (V) recorder for whole scenarios: seeded random rulesets over scripted user functions (cacheable,
//! non-cacheable, failing-then-succeeding, counters; each call suspending 0..5 times), up to 6
//! concurrent evaluations under a random poll schedule with drops.  One record per scenario for
//! SchedTrace.tla: what every poll showed (Pending/Ready, log length), the outcomes, the global log.
//! Also: seeded random serde terms and conversions for SerTrace.tla.

use crate::exec::*;
use crate::model::*;
use crate::scenario::build_ruleset;
use rand::rngs::StdRng;
use rand::{Rng, SeedableRng};
use reval::prelude::*;
use serde_json::{json, Value as J};
use std::future::Future;
use std::pin::Pin;
use std::task::Poll;

fn arg(rng: &mut StdRng, depth: u32) -> Expr {
    match rng.gen_range(0..6) {
        0 | 1 => Expr::reff("a"),
        2 => Expr::value(rng.gen_range(1..4) as i128),
        3 => Expr::value("1".to_string()),
        4 if depth > 0 => call(rng, depth - 1),
        _ => Expr::reff("b"),
    }
}
fn call(rng: &mut StdRng, depth: u32) -> Expr {
    let f = ["f", "g", "h", "c", "f", "g"][rng.gen_range(0..6)];
    Expr::func(f, arg(rng, depth))
}
fn rule_expr(rng: &mut StdRng) -> Expr {
    match rng.gen_range(0..7) {
        0 => call(rng, 2),
        1 => Expr::Vec((0..rng.gen_range(1..4)).map(|_| call(rng, 1)).collect()),
        2 => Expr::eq(call(rng, 1), call(rng, 1)),
        3 => Expr::iif(Expr::gt(Expr::reff("a"), Expr::value(1)), call(rng, 1), call(rng, 1)),
        4 => Expr::and(Expr::some(call(rng, 1)), Expr::eq(call(rng, 0), Expr::reff("a"))),
        5 => Expr::add(Expr::reff("a"), Expr::value(1)),
        _ => Expr::Vec(vec![call(rng, 0), Expr::div(Expr::reff("a"), Expr::value(0)), call(rng, 0)]),
    }
}

pub fn record_scenarios(seed: u64, n: usize) -> Result<Vec<J>, String> {
    let mut rng = StdRng::seed_from_u64(seed);
    let mut recs = Vec::new();
    for _ in 0..n {
        let kf = rng.gen_range(0..=5usize);
        let kg = rng.gen_range(0..=3usize);
        let f = |name: &str, cacheable: bool, suspend: usize, script: J| json!({"name": cps(name), "cacheable": cacheable, "suspend": suspend, "script": script});
        let env = json!({"syms": [], "funcs": [
            f("f", true, kf, json!([{"r": "echo"}])), f("g", false, kg, json!([{"r": "echo"}])),
            f("h", true, rng.gen_range(0..=2), json!([{"r": "fail", "msg": cps("h1")}, {"r": "tagged"}])),
            f("c", false, rng.gen_range(0..=1), json!([{"r": "counter"}]))]});
        let nrules = rng.gen_range(0..=4);
        let rules: Vec<(String, Expr)> = (0..nrules).map(|i| (format!("r{}", i + 1), rule_expr(&mut rng))).collect();
        let rules_j: Vec<J> = rules.iter().map(|(n, e)| json!({"name": cps(n), "expr": expr_to_model(e)})).collect();
        let built = build_ruleset(&env, rules)?;
        let rs = &built.ruleset;
        let ne = rng.gen_range(1..=6usize);
        let inputs: Vec<Value> = (0..ne)
            .map(|_| Value::Map([("a".to_string(), Value::Int(rng.gen_range(1..4))), ("b".to_string(), Value::String("1".into()))].into_iter().collect()))
            .collect();
        type Fut<'a> = Pin<Box<dyn Future<Output = reval::Result<Vec<reval::ruleset::Outcome<'a>>>> + 'a>>;
        let mut futs: Vec<Option<Fut>> = (0..ne).map(|_| None).collect();
        let mut started = 0usize;
        let mut x: Vec<J> = (0..ne).map(|_| json!([])).collect();
        let mut sched: Vec<J> = Vec::new();
        let mut bad = None;
        for _step in 0..400 {
            let live: Vec<usize> = (0..ne).filter(|e| futs[*e].is_some()).collect();
            if live.is_empty() && started == ne {
                break;
            }
            let start_new = started < ne && (live.is_empty() || rng.gen_bool(0.3));
            if start_new {
                // (the evaluation's id travels in a task-local, so that the scripted functions can say who called them)
                futs[started] = Some(Box::pin(EV.scope(started + 1, rs.evaluate_value(&inputs[started]))));
                built.log.event(started + 1, "start", "", None, 0, true);
                sched.push(json!({"a": "start", "e": started + 1}));
                started += 1;
                continue;
            }
            let e = live[rng.gen_range(0..live.len())];
            if rng.gen_bool(0.04) {
                futs[e] = None;
                built.log.event(e + 1, "drop", "", None, 0, true);
                sched.push(json!({"a": "drop", "e": e + 1}));
                continue;
            }
            match poll_once(futs[e].as_mut().unwrap()) {
                Err(p) => {
                    bad = Some(p);
                    break;
                }
                Ok(Poll::Pending) => sched.push(json!({"a": "poll", "e": e + 1, "ready": false, "ncalls": built.log.entries.lock().unwrap().len()})),
                Ok(Poll::Ready(res)) => {
                    built.log.event(e + 1, "finish", "", None, 0, true);
                    sched.push(json!({"a": "poll", "e": e + 1, "ready": true, "ncalls": built.log.entries.lock().unwrap().len()}));
                    x[e] = match &res {
                        Err(err) => json!([{"rule": [], "o": {"panic": format!("whole call failed: {err}")}}]),
                        Ok(outs) => J::Array(outs.iter().map(|o| {
                            let obs = match &o.value { Ok(v) => Obs::Ok(v.clone()), Err(e) => classify(e) };
                            json!({"rule": cps(o.rule.name()), "o": obs_to_model(&obs)})
                        }).collect()),
                    };
                    drop(res);
                    futs[e] = None;
                }
            }
        }
        drop(futs);
        let calls: Vec<J> = built.log.snapshot().iter().map(|c| json!({"f": cps(&c.func), "arg": to_model(&c.arg)})).collect();
        // the same execution as the abstract cache protocol sees it (CacheAbsTrace.tla)
        // (arguments are numbered in order of first appearance: identity of the value as written, i.e. of its model image)
        let mut arg_ids: Vec<String> = Vec::new();
        let mut arg_id = |v: &Value| -> usize {
            let key = to_model(v).to_string();
            match arg_ids.iter().position(|k| *k == key) {
                Some(i) => i + 1,
                None => {
                    arg_ids.push(key);
                    arg_ids.len()
                }
            }
        };
        let abs: Vec<J> = built.log.events.lock().unwrap().iter().map(|ev| match ev.kind {
            "invoke" => json!({"a": "invoke", "e": ev.ev, "f": cps(&ev.func), "arg": ev.arg.as_ref().map(to_model), "ai": ev.arg.as_ref().map(&mut arg_id), "n": ev.ordinal}),
            "ret" => json!({"a": "ret", "e": ev.ev, "f": cps(&ev.func), "n": ev.ordinal, "ok": ev.ok}),
            k => json!({"a": k, "e": ev.ev}),
        }).collect();
        // the abstract universe has 16 argument ids: a scenario with more distinct arguments (about one in a thousand) is
        // left to SchedTrace alone
        let abs_skipped = arg_ids.len() > 16;
        let abs = if abs_skipped { Vec::new() } else { abs };
        let mut rec = json!({"env": env, "rules": rules_j, "inputs": inputs.iter().map(to_model).collect::<Vec<_>>(), "schedule": sched, "x": x, "calls": calls, "abs": abs, "abs_skipped": abs_skipped});
        if let Some(p) = bad {
            rec["panic"] = J::from(p);
        }
        recs.push(rec);
    }
    Ok(recs)
}

// ---------------------------------------------------------------- random terms and conversions (SerTrace)

fn term(rng: &mut StdRng, depth: u32) -> J {
    let big = |rng: &mut StdRng, bits: u32, signed: bool| -> J {
        let m: u128 = if bits == 128 { rng.gen() } else { rng.gen::<u128>() >> (128 - bits) };
        let pick = rng.gen_range(0..5);
        let max: u128 = if bits == 128 { u128::MAX } else { (1u128 << bits) - 1 };
        let half = max / 2 + 1; // 2^(bits-1)
        let (s, mag): (i64, u128) = if signed {
            match pick { 0 => (1, half - 1), 1 => (-1, half), 2 => (0, 0), 3 => (-1, 1), _ => if rng.gen_bool(0.5) { (1, m % half) } else { (-1, m % half + 1) } }
        } else {
            match pick { 0 => (1, max), 1 => (0, 0), 2 => (1, half), _ => (1, m) }
        };
        let s = if mag == 0 { 0 } else { s };
        json!({"s": s, "m": limbs(mag)})
    };
    let leaf = |rng: &mut StdRng| -> J {
        match rng.gen_range(0..18) {
            0 => json!({"k": "bool", "b": rng.gen_bool(0.5)}),
            1 => json!({"k": "i8", "n": big(rng, 8, true)}), 2 => json!({"k": "i16", "n": big(rng, 16, true)}),
            3 => json!({"k": "i32", "n": big(rng, 32, true)}), 4 => json!({"k": "i64", "n": big(rng, 64, true)}),
            5 => json!({"k": "i128", "n": big(rng, 128, true)}), 6 => json!({"k": "u8", "n": big(rng, 8, false)}),
            7 => json!({"k": "u16", "n": big(rng, 16, false)}), 8 => json!({"k": "u32", "n": big(rng, 32, false)}),
            9 => json!({"k": "u64", "n": big(rng, 64, false)}), 10 => json!({"k": "u128", "n": big(rng, 128, false)}),
            11 => json!({"k": "f64", "f": f64_to_model(f64::from_bits(rng.gen()))}),
            12 => json!({"k": "f32", "f": f64_to_model(f32::from_bits(rng.gen()) as f64)}),
            13 => { let c = [97u32, 233, 128512, 0x4e2d][rng.gen_range(0..4)]; json!({"k": "char", "c": c}) }
            14 => { let t = ["", "k", "hé", "a b", "2015-07-30T03:26:13Z", "2024-03-10T08:30:00+02:00", "1.5", "true", "none", "i1", "PT1S", "éééééééééééééééééééééééééééééééééééé", "aéééééééééééééééééééééééééééééééééééé"][rng.gen_range(0..13)]; json!({"k": "str", "cs": cps(t)}) }
            15 => json!({"k": "bytes", "bs": (0..rng.gen_range(0..4)).map(|_| rng.gen::<u8>()).collect::<Vec<_>>()}),
            16 => [json!({"k": "none"}), json!({"k": "unit"}), json!({"k": "unit_struct", "name": cps("U")}), json!({"k": "unit_variant", "name": cps("E"), "variant": cps("A")})][rng.gen_range(0..4)].clone(),
            _ => json!({"k": "fail", "msg": cps("nope")}),
        }
    };
    if depth == 0 || rng.gen_bool(0.3) {
        return leaf(rng);
    }
    let d = depth - 1;
    let n = if rng.gen_bool(0.15) { rng.gen_range(4..10) } else { rng.gen_range(0..4) };
    let key = |rng: &mut StdRng| -> J { if rng.gen_bool(0.9) { let t = ["a", "b", "k", "", "z", "m", "aa", "A", "key with spaces", "y"][rng.gen_range(0..10)]; json!({"k": "str", "cs": cps(t)}) } else { term(rng, 0) } };
    match rng.gen_range(0..11) {
        0 => json!({"k": "some", "x": term(rng, d)}),
        1 => json!({"k": "newtype_struct", "name": cps("N"), "x": term(rng, d)}),
        2 => json!({"k": "newtype_variant", "name": cps("E"), "variant": cps("V"), "x": term(rng, d)}),
        3 => json!({"k": "seq", "xs": (0..n).map(|_| term(rng, d)).collect::<Vec<_>>()}),
        4 => json!({"k": "tuple", "xs": (0..n).map(|_| term(rng, d)).collect::<Vec<_>>()}),
        5 => json!({"k": "tuple_struct", "name": cps("T"), "xs": (0..n).map(|_| term(rng, d)).collect::<Vec<_>>()}),
        6 => json!({"k": "tuple_variant", "name": cps("E"), "variant": cps("T"), "xs": (0..n).map(|_| term(rng, d)).collect::<Vec<_>>()}),
        7 | 8 => json!({"k": if rng.gen_bool(0.35) { "mapkv" } else { "map" }, "kv": (0..n).map(|_| json!([key(rng), term(rng, d)])).collect::<Vec<_>>()}),
        9 => json!({"k": "struct", "name": cps("S"), "fields": (0..n).map(|i| json!([cps(["z", "a", "m", "b", "zz", "k", "a", "c", "y"][i]), term(rng, d)])).collect::<Vec<_>>()}),
        _ => json!({"k": "struct_variant", "name": cps("E"), "variant": cps("SV"), "fields": (0..n).map(|i| json!([cps(["z", "a", "m", "b", "zz", "k", "a", "c", "y"][i]), term(rng, d)])).collect::<Vec<_>>()}),
    }
}

pub fn record_ser(seed: u64, n: usize) -> Result<Vec<J>, String> {
    use reval::value::ser::ValueSerializer;
    use serde::Serialize;
    let mut rng = StdRng::seed_from_u64(seed);
    let mut g = crate::gen::Gen::new(seed ^ 0x5eed, crate::gen::Profile::Arith);
    let mut recs = Vec::new();
    for k in 0..n {
        if k % 2 == 0 {
            let tj = term(&mut rng, 4);
            let t = crate::ser::term_from_model(&tj)?;
            let r = std::panic::catch_unwind(std::panic::AssertUnwindSafe(|| t.serialize(ValueSerializer))).map_err(panic_msg);
            recs.push(json!({"kind": "ser", "term": tj, "x": obs_to_model(&obs_of(r))}));
        } else {
            let targets = ["i8", "i16", "i32", "i64", "i128", "u8", "u16", "u32", "u64", "u128", "f64", "bool", "string", "decimal", "datetime", "duration"];
            let target = targets[rng.gen_range(0..targets.len())];
            let (cont, src) = match rng.gen_range(0..4) {
                0 => ("vec", Value::Vec((0..rng.gen_range(0..4)).map(|_| if rng.gen_bool(0.8) { Value::Int(g.int()) } else { g.value(crate::gen::Ty::Any, 0) }).collect())),
                1 => (["hmap", "bmap"][rng.gen_range(0..2)], Value::Map((0..rng.gen_range(0..4)).map(|i| (["a", "b", "c"][i].to_string(), if rng.gen_bool(0.8) { Value::Int(g.int()) } else { g.value(crate::gen::Ty::Any, 0) })).collect())),
                _ => ("", if rng.gen_bool(0.7) { Value::Int(g.int()) } else { g.value(crate::gen::Ty::Any, 1) }),
            };
            let target = if !cont.is_empty() { ["i8", "u64", "i128", "string"][rng.gen_range(0..4)] } else { target };
            let case = json!({"target": target, "container": cont, "src": to_model(&src)});
            let mut rep = crate::report::Report::default();
            let obs = crate::conv::observe(&case, &mut rep)?;
            recs.push(json!({"kind": "conv", "target": target, "container": cont, "src": to_model(&src), "x": obs_to_model(&obs)}));
        }
    }
    Ok(recs)
}

// ---------------------------------------------------------------- random builder call sequences (BuilderTrace)

pub fn record_builder(seed: u64, n: usize) -> Result<Vec<J>, String> {
    use std::collections::BTreeMap;
    use std::sync::Arc;
    let mut rng = StdRng::seed_from_u64(seed);
    let rule_names = ["r1", "r2", "r3", "r 4", "", "R1", "rule 01", "rule 02", "rule 03", "rule 04", "rule 05", "rule 06", "rule 07", "rule 08", "rule 09", "rule 10", "rule 11", "r10", "r11"];
    let fn_names = ["f", "g", "fn1", "_x", "if", "second", "_-", "1x", "é1", "facts"];
    let sym_names = ["s", "t", "S", "s01", "s02", "s03", "s04", "s05", "s06", "s07", "s08", "s09", "s10", "s11", "s12", "val", "key"];
    let mut recs = Vec::new();
    for _ in 0..n {
        let log = Arc::new(Log::default());
        let rule_j = |rng: &mut StdRng| -> J { let nm = rule_names[rng.gen_range(0..rule_names.len())]; json!({"name": cps(nm), "expr": expr_to_model(&Expr::value(nm.to_string()))}) };
        let fn_j = |rng: &mut StdRng| -> J { json!({"name": cps(fn_names[rng.gen_range(0..fn_names.len())]), "cacheable": true, "suspend": 0, "script": [{"r": "echo"}]}) };
        let len = if rng.gen_bool(0.2) { rng.gen_range(30..=70) } else { rng.gen_range(0..=30) };
        let mut ops: Vec<J> = Vec::new();
        let mut accepted: Vec<usize> = Vec::new();
        let mk_rule = |j: &J| -> Result<Rule, String> { Ok(Rule::new(uncps(&j["name"])?, BTreeMap::new(), expr_from_model(&j["expr"])?)) };
        // apply one op to a builder
        let apply = |b: Builder, o: &J, log: &Arc<Log>| -> Result<reval::Result<Builder>, String> {
            Ok(match o["op"].as_str().unwrap_or("") {
                "with_rule" => b.with_rule(mk_rule(&o["rule"])?),
                "with_rules" => b.with_rules(o["rules"].as_array().unwrap().iter().map(|r| mk_rule(r)).collect::<Result<Vec<_>, _>>()?),
                "with_function" => b.with_function(modelfn_from_model(&o["f"], log.clone())?),
                "with_functions" => {
                    let mut v: Vec<Box<dyn UserFunction + Send + Sync + 'static>> = Vec::new();
                    for f in o["fs"].as_array().unwrap() {
                        v.push(Box::new(modelfn_from_model(f, log.clone())?));
                    }
                    b.with_functions(v)
                }
                "with_symbol" => Ok(b.with_symbol(uncps(&o["n"])?, from_model(&o["v"])?)),
                "with_symbols" => b.with_symbols(Symbols::from(o["tab"].as_array().unwrap().iter().map(|kv| Ok((uncps(&kv[0])?, from_model(&kv[1])?))).collect::<Result<Vec<_>, String>>()?)),
                other => return Err(format!("op {other}")),
            })
        };
        let mut b = ruleset();
        for _ in 0..len {
            let mut o = match rng.gen_range(0..6) {
                0 => json!({"op": "with_rule", "rule": rule_j(&mut rng)}),
                1 => json!({"op": "with_rules", "rules": (0..if rng.gen_bool(0.1) { rng.gen_range(8..14) } else { rng.gen_range(0..3) }).map(|_| rule_j(&mut rng)).collect::<Vec<_>>()}),
                2 => json!({"op": "with_function", "f": fn_j(&mut rng)}),
                3 => json!({"op": "with_functions", "fs": (0..rng.gen_range(0..3)).map(|_| fn_j(&mut rng)).collect::<Vec<_>>()}),
                4 => json!({"op": "with_symbol", "n": cps(sym_names[rng.gen_range(0..sym_names.len())]), "v": to_model(&Value::Int(rng.gen_range(0..50)))}),
                _ => json!({"op": "with_symbols", "tab": (0..if rng.gen_bool(0.15) { rng.gen_range(33..60) } else { rng.gen_range(0..3) }).map(|_| json!([cps(sym_names[rng.gen_range(0..sym_names.len())]), to_model(&Value::Int(rng.gen_range(50..9999)))])).collect::<Vec<_>>()}),
            };
            let res = apply(b, &o, &log)?;
            match res {
                Ok(nb) => {
                    o["x"] = json!({"ok": true});
                    accepted.push(ops.len());
                    b = nb;
                }
                Err(e) => {
                    o["x"] = obs_to_model(&classify(&e));
                    // the refused call consumed the builder: rebuild the accepted prefix
                    let mut nb = ruleset();
                    for &k in &accepted {
                        nb = apply(nb, &ops[k], &log)?.map_err(|e| format!("replaying an accepted op failed: {e}"))?;
                    }
                    b = nb;
                }
            }
            ops.push(o);
        }
        // probes: one rule per function name and per symbol
        let mut probes: Vec<J> = Vec::new();
        for (k, f) in fn_names.iter().enumerate() {
            probes.push(json!({"name": cps(&format!("\u{1}f{k}")), "expr": expr_to_model(&Expr::func(*f, Expr::value(0)))}));
        }
        for (k, s) in sym_names.iter().enumerate() {
            probes.push(json!({"name": cps(&format!("\u{1}s{k}")), "expr": expr_to_model(&Expr::symbol(*s))}));
        }
        let po = json!({"op": "with_rules", "rules": probes});
        let rs = apply(b, &po, &log)?.map_err(|e| format!("adding probes failed: {e}"))?.build();
        let outs = block_on(rs.evaluate_value(&Value::None)).map_err(|p| format!("panic: {p}"))?.map_err(|e| e.to_string())?;
        let outcomes: Vec<J> = outs.iter().map(|o| {
            let obs = match &o.value { Ok(v) => Obs::Ok(v.clone()), Err(e) => classify(e) };
            json!({"rule": cps(o.rule.name()), "o": obs_to_model(&obs)})
        }).collect();
        recs.push(json!({"ops": ops, "probes": probes, "outcomes": outcomes}));
    }
    Ok(recs)
}
