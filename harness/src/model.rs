//! Projection between reval's types and the TLA+ model's JSON encoding (DESIGN 4.1),
//! error classification (4.3) and the comparison relation `matches` (4.4).
//! Both directions are total and exact: no information is lost or guessed.

use chrono::{DateTime, TimeDelta, Utc};
use reval::expr::{Expr, Index};
use reval::value::Value;
use rust_decimal::Decimal;
use serde_json::{json, Value as J};
use std::collections::BTreeMap;

pub const LB: u32 = 15;
pub const B: u128 = 1 << LB;

pub fn limbs(mut x: u128) -> Vec<J> {
    let mut v = Vec::new();
    while x > 0 {
        v.push(J::from((x % B) as u64));
        x /= B;
    }
    v
}

pub fn unlimbs(j: &J) -> Result<u128, String> {
    let arr = j.as_array().ok_or("limbs: not an array")?;
    let mut x: u128 = 0;
    for (i, l) in arr.iter().enumerate().rev() {
        let l = l.as_u64().ok_or("limb not u64")? as u128;
        if x > (u128::MAX >> LB) {
            return Err(format!("magnitude exceeds 128 bits at limb {i}"));
        }
        x = (x << LB) | l;
    }
    Ok(x)
}

pub fn z_to_model(x: i128) -> J {
    let s = if x == 0 { 0 } else if x > 0 { 1 } else { -1 };
    json!({"s": s, "m": limbs(x.unsigned_abs())})
}

/// signed big integer -> i128, error when outside i128
pub fn z_from_model(j: &J) -> Result<i128, String> {
    let s = j["s"].as_i64().ok_or("z.s")?;
    let m = unlimbs(&j["m"])?;
    if s >= 0 {
        i128::try_from(m).map_err(|_| "out of i128".to_string())
    } else if m <= (1u128 << 127) {
        Ok((m as i128).wrapping_neg())
    } else {
        Err("out of i128".to_string())
    }
}

pub fn cps(s: &str) -> J {
    J::Array(s.chars().map(|c| J::from(c as u32)).collect())
}

pub fn uncps(j: &J) -> Result<String, String> {
    j.as_array()
        .ok_or("cps: not an array")?
        .iter()
        .map(|c| {
            c.as_u64()
                .and_then(|c| char::from_u32(c as u32))
                .ok_or_else(|| format!("bad code point {c}"))
        })
        .collect()
}

pub fn f64_to_model(x: f64) -> J {
    if x.is_nan() {
        return json!({"c": "nan", "s": 1, "m": [], "e": 0});
    }
    let s = if x.is_sign_negative() { -1 } else { 1 };
    if x.is_infinite() {
        return json!({"c": "inf", "s": s, "m": [], "e": 0});
    }
    let bits = x.to_bits();
    let exp = ((bits >> 52) & 0x7ff) as i64;
    let frac = bits & ((1u64 << 52) - 1);
    let (mut m, mut e) = if exp == 0 { (frac, -1074i64) } else { (frac | (1u64 << 52), exp - 1075) };
    if m == 0 {
        return json!({"c": "fin", "s": s, "m": [], "e": 0});
    }
    while m % 2 == 0 {
        m /= 2;
        e += 1;
    }
    json!({"c": "fin", "s": s, "m": limbs(m as u128), "e": e})
}

pub fn f64_from_model(j: &J) -> Result<f64, String> {
    let c = j["c"].as_str().ok_or("f.c")?;
    let s = j["s"].as_i64().ok_or("f.s")?;
    let neg = s < 0;
    let v = match c {
        "nan" => return Ok(f64::NAN),
        "inf" => f64::INFINITY,
        "fin" => {
            let m = unlimbs(&j["m"])?;
            let e = j["e"].as_i64().ok_or("f.e")?;
            if m == 0 {
                0.0
            } else {
                let l = 128 - m.leading_zeros() as i64; // bit length
                if l > 53 {
                    return Err("float mantissa exceeds 53 bits".into());
                }
                let lead = l - 1 + e;
                if lead > 1023 {
                    return Err("float exponent too large".into());
                }
                let bits = if lead >= -1022 {
                    let frac = ((m as u64) << (53 - l)) & ((1u64 << 52) - 1);
                    (((lead + 1023) as u64) << 52) | frac
                } else {
                    let sh = e + 1074;
                    if sh < 0 {
                        return Err("float below subnormal range".into());
                    }
                    (m as u64) << sh
                };
                f64::from_bits(bits)
            }
        }
        _ => return Err(format!("float class {c}")),
    };
    Ok(if neg { -v } else { v })
}

pub fn dt_to_ns(d: &DateTime<Utc>) -> i128 {
    d.timestamp() as i128 * 1_000_000_000 + d.timestamp_subsec_nanos() as i128
}
pub fn dt_from_ns(ns: i128) -> Result<DateTime<Utc>, String> {
    let secs = ns.div_euclid(1_000_000_000);
    let nanos = ns.rem_euclid(1_000_000_000) as u32;
    let secs = i64::try_from(secs).map_err(|_| "dt secs")?;
    DateTime::from_timestamp(secs, nanos).ok_or_else(|| format!("instant {ns} outside chrono range"))
}
pub fn dur_to_ns(d: &TimeDelta) -> i128 {
    d.num_seconds() as i128 * 1_000_000_000 + d.subsec_nanos() as i128
}
pub fn dur_from_ns(ns: i128) -> Result<TimeDelta, String> {
    let secs = ns.div_euclid(1_000_000_000);
    let nanos = ns.rem_euclid(1_000_000_000) as u32;
    let secs = i64::try_from(secs).map_err(|_| "dur secs")?;
    TimeDelta::new(secs, nanos).ok_or_else(|| format!("duration {ns} outside chrono range"))
}

pub fn to_model(v: &Value) -> J {
    match v {
        Value::None => json!({"t": "None"}),
        Value::Bool(b) => json!({"t": "Bool", "b": b}),
        Value::Int(i) => json!({"t": "Int", "n": z_to_model(*i)}),
        Value::Float(f) => json!({"t": "Float", "f": f64_to_model(*f)}),
        Value::Decimal(d) => json!({"t": "Dec", "n": z_to_model(d.mantissa()), "sc": d.scale()}),
        Value::String(s) => json!({"t": "Str", "cs": cps(s)}),
        Value::DateTime(d) => json!({"t": "DT", "n": z_to_model(dt_to_ns(d))}),
        Value::Duration(d) => json!({"t": "Dur", "n": z_to_model(dur_to_ns(d))}),
        Value::Vec(xs) => json!({"t": "Vec", "xs": xs.iter().map(to_model).collect::<Vec<_>>()}),
        Value::Map(m) => json!({"t": "Map", "kv": m.iter().map(|(k, v)| json!([cps(k), to_model(v)])).collect::<Vec<_>>()}),
    }
}

pub fn from_model(j: &J) -> Result<Value, String> {
    let t = j["t"].as_str().ok_or_else(|| format!("value without tag: {j}"))?;
    Ok(match t {
        "None" => Value::None,
        "Bool" => Value::Bool(j["b"].as_bool().ok_or("b")?),
        "Int" => Value::Int(z_from_model(&j["n"])?),
        "Float" => Value::Float(f64_from_model(&j["f"])?),
        "Dec" => {
            let n = z_from_model(&j["n"])?;
            let sc = j["sc"].as_u64().ok_or("sc")? as u32;
            Value::Decimal(Decimal::try_from_i128_with_scale(n, sc).map_err(|e| e.to_string())?)
        }
        "Str" => Value::String(uncps(&j["cs"])?),
        "DT" => Value::DateTime(dt_from_ns(z_from_model(&j["n"])?)?),
        "Dur" => Value::Duration(dur_from_ns(z_from_model(&j["n"])?)?),
        "Vec" => Value::Vec(j["xs"].as_array().ok_or("xs")?.iter().map(from_model).collect::<Result<_, _>>()?),
        "Map" => {
            let mut m = BTreeMap::new();
            for kv in j["kv"].as_array().ok_or("kv")? {
                m.insert(uncps(&kv[0])?, from_model(&kv[1])?);
            }
            Value::Map(m)
        }
        _ => return Err(format!("unknown value tag {t}")),
    })
}

// ---------------------------------------------------------------- expressions

pub const UNARY: &[&str] = &[
    "not", "neg", "some", "none", "int", "float", "dec", "datetime", "duration", "uppercase", "lowercase", "trim",
    "floor", "round", "fract", "year", "month", "week", "day", "hour", "minute", "second",
];
pub const BINARY: &[&str] = &[
    "mult", "div", "rem", "add", "sub", "gt", "gte", "lt", "lte", "bitand", "bitor", "bitxor", "contains", "eq",
    "neq", "and", "or",
];

pub fn unary(kind: &str, e: Expr) -> Option<Expr> {
    Some(match kind {
        "not" => Expr::not(e),
        "neg" => Expr::neg(e),
        "some" => Expr::some(e),
        "none" => Expr::none(e),
        "int" => Expr::int(e),
        "float" => Expr::float(e),
        "dec" => Expr::dec(e),
        "datetime" => Expr::datetime(e),
        "duration" => Expr::duration(e),
        "uppercase" => Expr::uppercase(e),
        "lowercase" => Expr::lowercase(e),
        "trim" => Expr::trim(e),
        "floor" => Expr::floor(e),
        "round" => Expr::round(e),
        "fract" => Expr::fract(e),
        "year" => Expr::year(e),
        "month" => Expr::month(e),
        "week" => Expr::week(e),
        "day" => Expr::day(e),
        "hour" => Expr::hour(e),
        "minute" => Expr::minute(e),
        "second" => Expr::second(e),
        _ => return None,
    })
}

pub fn binary(kind: &str, l: Expr, r: Expr) -> Option<Expr> {
    Some(match kind {
        "mult" => Expr::mult(l, r),
        "div" => Expr::div(l, r),
        "rem" => Expr::rem(l, r),
        "add" => Expr::add(l, r),
        "sub" => Expr::sub(l, r),
        "gt" => Expr::gt(l, r),
        "gte" => Expr::gte(l, r),
        "lt" => Expr::lt(l, r),
        "lte" => Expr::lte(l, r),
        "bitand" => Expr::bitwise_and(l, r),
        "bitor" => Expr::bitwise_or(l, r),
        "bitxor" => Expr::bitwise_xor(l, r),
        "contains" => Expr::contains(l, r),
        "eq" => Expr::eq(l, r),
        "neq" => Expr::neq(l, r),
        "and" => Expr::and(l, r),
        "or" => Expr::or(l, r),
        _ => return None,
    })
}

pub fn index_from_model(j: &J) -> Result<Index, String> {
    match j["k"].as_str() {
        // through the public conversion from &str: a field step stays a field step whatever its text ("1", "")
        Some("f") => Ok(Index::from(uncps(&j["name"])?.as_str())),
        Some("i") => Ok(Index::Vec(j["i"].as_u64().ok_or("index i")? as usize)),
        Some("I") => Ok(Index::Vec(usize::try_from(unlimbs(&j["big"])?).map_err(|_| "index beyond usize")?)),
        _ => Err(format!("bad index {j}")),
    }
}
pub fn index_to_model(i: &Index) -> J {
    match i {
        Index::Map(n) => json!({"k": "f", "name": cps(n)}),
        // indices of 2^30 and more as limbs, like the specification (its native integers are 32 bit)
        Index::Vec(i) if *i >= (1usize << 30) => json!({"k": "I", "big": limbs(*i as u128)}),
        Index::Vec(i) => json!({"k": "i", "i": i}),
    }
}

pub fn expr_from_model(j: &J) -> Result<Expr, String> {
    let k = j["k"].as_str().ok_or_else(|| format!("expr without kind: {j}"))?;
    let arg = |i: usize| -> Result<Expr, String> { expr_from_model(&j["a"][i]) };
    Ok(match k {
        "val" => Expr::Value(from_model(&j["v"])?),
        "ref" => Expr::Reference(uncps(&j["n"])?),
        "sym" => Expr::Symbol(uncps(&j["n"])?),
        "call" => Expr::func(uncps(&j["n"])?, arg(0)?),
        "index" => Expr::index(arg(0)?, index_from_model(&j["i"])?),
        "if" => Expr::iif(arg(0)?, arg(1)?, arg(2)?),
        "vec" => Expr::Vec(j["a"].as_array().ok_or("vec a")?.iter().map(expr_from_model).collect::<Result<_, _>>()?),
        "map" => {
            let mut m = BTreeMap::new();
            for kv in j["kv"].as_array().ok_or("map kv")? {
                m.insert(uncps(&kv[0])?, expr_from_model(&kv[1])?);
            }
            Expr::Map(m)
        }
        _ => {
            if let Some(e) = if UNARY.contains(&k) { unary(k, arg(0)?) } else { None } {
                e
            } else if BINARY.contains(&k) {
                binary(k, arg(0)?, arg(1)?).unwrap()
            } else {
                return Err(format!("unknown expr kind {k}"));
            }
        }
    })
}

pub fn expr_to_model(e: &Expr) -> J {
    let un = |k: &str, a: &Expr| json!({"k": k, "a": [expr_to_model(a)]});
    let bin = |k: &str, a: &Expr, b: &Expr| json!({"k": k, "a": [expr_to_model(a), expr_to_model(b)]});
    match e {
        Expr::Value(v) => json!({"k": "val", "v": to_model(v)}),
        Expr::Reference(n) => json!({"k": "ref", "n": cps(n)}),
        Expr::Symbol(n) => json!({"k": "sym", "n": cps(n)}),
        Expr::Function(n, a) => json!({"k": "call", "n": cps(n), "a": [expr_to_model(a)]}),
        Expr::Index(a, i) => json!({"k": "index", "a": [expr_to_model(a)], "i": index_to_model(i)}),
        Expr::If(c, t, f) => json!({"k": "if", "a": [expr_to_model(c), expr_to_model(t), expr_to_model(f)]}),
        Expr::Map(m) => json!({"k": "map", "kv": m.iter().map(|(k, v)| json!([cps(k), expr_to_model(v)])).collect::<Vec<_>>()}),
        Expr::Vec(v) => json!({"k": "vec", "a": v.iter().map(expr_to_model).collect::<Vec<_>>()}),
        Expr::Not(a) => un("not", a),
        Expr::Neg(a) => un("neg", a),
        Expr::Some(a) => un("some", a),
        Expr::None(a) => un("none", a),
        Expr::Int(a) => un("int", a),
        Expr::Float(a) => un("float", a),
        Expr::Dec(a) => un("dec", a),
        Expr::DateTime(a) => un("datetime", a),
        Expr::Duration(a) => un("duration", a),
        Expr::Mult(a, b) => bin("mult", a, b),
        Expr::Div(a, b) => bin("div", a, b),
        Expr::Rem(a, b) => bin("rem", a, b),
        Expr::Add(a, b) => bin("add", a, b),
        Expr::Sub(a, b) => bin("sub", a, b),
        Expr::Equals(a, b) => bin("eq", a, b),
        Expr::NotEquals(a, b) => bin("neq", a, b),
        Expr::GreaterThan(a, b) => bin("gt", a, b),
        Expr::GreaterThanEquals(a, b) => bin("gte", a, b),
        Expr::LessThan(a, b) => bin("lt", a, b),
        Expr::LessThanEquals(a, b) => bin("lte", a, b),
        Expr::And(a, b) => bin("and", a, b),
        Expr::Or(a, b) => bin("or", a, b),
        Expr::BitAnd(a, b) => bin("bitand", a, b),
        Expr::BitOr(a, b) => bin("bitor", a, b),
        Expr::BitXor(a, b) => bin("bitxor", a, b),
        Expr::Contains(a, b) => bin("contains", a, b),
        Expr::UpperCase(a) => un("uppercase", a),
        Expr::LowerCase(a) => un("lowercase", a),
        Expr::Trim(a) => un("trim", a),
        Expr::Floor(a) => un("floor", a),
        Expr::Round(a) => un("round", a),
        Expr::Fract(a) => un("fract", a),
        Expr::Year(a) => un("year", a),
        Expr::Month(a) => un("month", a),
        Expr::Week(a) => un("week", a),
        Expr::Day(a) => un("day", a),
        Expr::Hour(a) => un("hour", a),
        Expr::Minute(a) => un("minute", a),
        Expr::Second(a) => un("second", a),
    }
}

/// the model's kind name of the root node only (no conversion of the subtree)
pub fn expr_kind(e: &Expr) -> &'static str {
    match e {
        Expr::Value(_) => "val", Expr::Reference(_) => "ref", Expr::Symbol(_) => "sym", Expr::Function(..) => "call", Expr::Index(..) => "index",
        Expr::If(..) => "if", Expr::Map(_) => "map", Expr::Vec(_) => "vec", Expr::Not(_) => "not", Expr::Neg(_) => "neg", Expr::Some(_) => "some",
        Expr::None(_) => "none", Expr::Int(_) => "int", Expr::Float(_) => "float", Expr::Dec(_) => "dec", Expr::DateTime(_) => "datetime",
        Expr::Duration(_) => "duration", Expr::Mult(..) => "mult", Expr::Div(..) => "div", Expr::Rem(..) => "rem", Expr::Add(..) => "add",
        Expr::Sub(..) => "sub", Expr::Equals(..) => "eq", Expr::NotEquals(..) => "neq", Expr::GreaterThan(..) => "gt",
        Expr::GreaterThanEquals(..) => "gte", Expr::LessThan(..) => "lt", Expr::LessThanEquals(..) => "lte", Expr::And(..) => "and",
        Expr::Or(..) => "or", Expr::BitAnd(..) => "bitand", Expr::BitOr(..) => "bitor", Expr::BitXor(..) => "bitxor", Expr::Contains(..) => "contains",
        Expr::UpperCase(_) => "uppercase", Expr::LowerCase(_) => "lowercase", Expr::Trim(_) => "trim", Expr::Floor(_) => "floor",
        Expr::Round(_) => "round", Expr::Fract(_) => "fract", Expr::Year(_) => "year", Expr::Month(_) => "month", Expr::Week(_) => "week",
        Expr::Day(_) => "day", Expr::Hour(_) => "hour", Expr::Minute(_) => "minute", Expr::Second(_) => "second",
    }
}

// ---------------------------------------------------------------- outcomes

/// What the code did, as data.  A panic is data, never a tool error.
#[derive(Debug, Clone)]
pub enum Obs {
    Ok(Value),
    Err { variant: String, payload: Option<Value>, name: Option<String>, msg: String },
    Panic(String),
}

pub fn classify(e: &reval::Error) -> Obs {
    use reval::Error as E;
    let (variant, payload, name): (&str, Option<Value>, Option<String>) = match e {
        E::InvalidFunctionName(n) => ("InvalidFunctionName", None, Some(n.clone())),
        E::DuplicateFunctionName(n) => ("DuplicateFunctionName", None, Some(n.clone())),
        E::DuplicateRuleName(n) => ("DuplicateRuleName", None, Some(n.clone())),
        E::ValueSerializationError(_) => ("ValueSerializationError", None, None),
        E::InvalidType => ("InvalidType", None, None),
        E::InvalidCast(v, _) => ("InvalidCast", Some(v.clone()), None),
        E::NumericOverflow(_) => ("NumericOverflow", None, None),
        E::UnexpectedValueType(v, _) => ("UnexpectedValueType", Some(v.clone()), None),
        E::UnknownRef(n) => ("UnknownRef", None, Some(n.clone())),
        E::UnknownIndex(n) => ("UnknownIndex", None, Some(n.clone())),
        E::UserFunctionError { function, error } => {
            return Obs::Err { variant: "UserFunctionError".into(), payload: None, name: Some(function.clone()), msg: error.to_string() }
        }
        E::UnknownUserFunction(n) => ("UnknownUserFunction", None, Some(n.clone())),
        E::ValueOutOfBounds(v, _) => ("ValueOutOfBounds", Some(v.clone()), None),
        E::DivisionByZero => ("DivisionByZero", None, None),
        E::InvalidSymbol(n) => ("InvalidSymbol", None, Some(n.clone())),
        // a variant this harness does not know (added by a change to the library): observed as itself,
        // which no class of the specification accepts - a verdict, not a build failure
        #[allow(unreachable_patterns)]
        other => {
            let dbg = format!("{other:?}");
            let name = dbg.split(|c: char| !c.is_alphanumeric()).next().unwrap_or("Unknown").to_string();
            return Obs::Err { variant: name, payload: None, name: None, msg: other.to_string() };
        }
    };
    Obs::Err { variant: variant.into(), payload, name, msg: e.to_string() }
}

pub fn obs_of(r: Result<reval::Result<Value>, String>) -> Obs {
    match r {
        Ok(Ok(v)) => Obs::Ok(v),
        Ok(Err(e)) => classify(&e),
        Err(p) => Obs::Panic(p),
    }
}

pub fn obs_to_model(o: &Obs) -> J {
    match o {
        Obs::Ok(v) => json!({"ok": true, "v": to_model(v)}),
        Obs::Err { variant, payload, name, msg } => {
            // the message as code points, like every other text the specification sees
            let mut j = json!({"ok": false, "variant": variant, "msg": cps(msg), "message": msg});
            if let Some(p) = payload {
                j["p"] = to_model(p);
            }
            if let Some(n) = name {
                j["n"] = cps(n);
            }
            j
        }
        Obs::Panic(m) => json!({"panic": m}),
    }
}

/// which reval error variants a spec error class accepts (DESIGN 4.3)
pub fn class_accepts(class: &str, variant: &str) -> bool {
    match class {
        "Type" => variant == "InvalidType",
        "Div" => variant == "DivisionByZero",
        "Cast" => variant == "InvalidCast",
        "Bounds" => variant == "ValueOutOfBounds",
        "Range" => matches!(variant, "ValueOutOfBounds" | "NumericOverflow" | "InvalidCast"),
        "UnknownRef" => variant == "UnknownRef",
        "Symbol" => variant == "InvalidSymbol",
        "UnknownFn" => variant == "UnknownUserFunction",
        "FnError" => variant == "UserFunctionError",
        "DupRule" => variant == "DuplicateRuleName",
        "DupFn" => variant == "DuplicateFunctionName",
        "BadFnName" => variant == "InvalidFunctionName",
        "Ser" => variant == "ValueSerializationError",
        "Overflow" => variant == "NumericOverflow",
        "WrongKind" => variant == "UnexpectedValueType",
        _ => false,
    }
}

fn ulps_apart(a: f64, b: f64) -> u64 {
    // distance in representable doubles, for finite same-sign-or-zero values
    let key = |x: f64| -> i64 {
        let b = x.to_bits() as i64;
        if b < 0 { i64::MIN.wrapping_sub(b) } else { b }
    };
    key(a).abs_diff(key(b))
}

/// exact structural match of a value against the model's expected value (floats bitwise up to
/// NaN payload and the sign of zero; decimals numerically)
pub fn value_matches(exp: &Value, got: &Value) -> bool {
    match (exp, got) {
        // floats bit for bit (0.0 and -0.0 are different values: 1 / x tells them apart); every NaN is the same NaN
        (Value::Float(a), Value::Float(b)) => (a.is_nan() && b.is_nan()) || a.to_bits() == b.to_bits(),
        (Value::Decimal(a), Value::Decimal(b)) => a == b,
        (Value::Vec(a), Value::Vec(b)) => a.len() == b.len() && a.iter().zip(b).all(|(x, y)| value_matches(x, y)),
        (Value::Map(a), Value::Map(b)) => {
            a.len() == b.len() && a.iter().zip(b).all(|((k1, x), (k2, y))| k1 == k2 && value_matches(x, y))
        }
        (Value::Float(_), _) | (Value::Decimal(_), _) | (Value::Vec(_), _) | (Value::Map(_), _) => false,
        (a, b) => a == b,
    }
}

fn approx_matches(ap: &str, exp: &Value, got: &Value) -> bool {
    match (ap, exp, got) {
        ("f1ulp", Value::Float(a), Value::Float(b)) => {
            (a.is_nan() && b.is_nan()) || a == b || (a.is_finite() && b.is_finite() && ulps_apart(*a, *b) <= 1)
        }
        ("dec1ulp", Value::Decimal(a), Value::Decimal(b)) => {
            // within one unit in the last place of either operand's scale
            let ulp = |d: &Decimal| Decimal::new(1, d.scale());
            match a.checked_sub(*b) {
                Some(d) => d.abs() <= ulp(a).max(ulp(b)),
                None => false,
            }
        }
        ("dec15", Value::Decimal(a), Value::Decimal(b)) => {
            // within 15 significant digits
            if a == b {
                return true;
            }
            match (a.checked_sub(*b), a.abs().checked_mul(Decimal::new(1, 14))) {
                (Some(d), Some(tol)) => d.abs() <= tol,
                // |a| too large to scale: compare the leading digits through f64
                _ => {
                    use rust_decimal::prelude::ToPrimitive;
                    let (x, y) = (a.to_f64().unwrap_or(f64::NAN), b.to_f64().unwrap_or(f64::NAN));
                    ((x - y) / x).abs() <= 1e-14
                }
            }
        }
        ("decTiny", Value::Decimal(_), Value::Decimal(b)) => b.abs() <= Decimal::new(1, 28),
        _ => false,
    }
}

/// Does the observation match the spec's prescribed outcome?  Err(reason) when not.
pub fn matches(exp: &J, obs: &Obs) -> Result<(), String> {
    if let Some(alt) = exp.get("alt") {
        if matches(alt, obs).is_ok() {
            return Ok(());
        }
    }
    if let Obs::Panic(m) = obs {
        return Err(format!("panic: {m}"));
    }
    let ok = exp["ok"].as_bool().ok_or("expected outcome without ok")?;
    match (ok, obs) {
        (true, Obs::Ok(got)) => {
            let expv = from_model(&exp["v"]).map_err(|e| format!("TOOL: cannot build expected value: {e}"))?;
            let good = match exp.get("ap").and_then(|a| a.as_str()) {
                None => value_matches(&expv, got),
                Some(ap) => value_matches(&expv, got) || approx_matches(ap, &expv, got),
            };
            if good { Ok(()) } else { Err(format!("value differs: expected {expv:?}, got {got:?}")) }
        }
        (true, Obs::Err { variant, msg, .. }) => Err(format!("expected a value, got error {variant} ({msg})")),
        (false, Obs::Ok(v)) => Err(format!("expected error {}, got value {v:?}", exp["e"])),
        (false, Obs::Err { variant, payload, name, msg }) => {
            let class = exp["e"].as_str().ok_or("expected error without class")?;
            if !class_accepts(class, variant) {
                return Err(format!("expected error class {class}, got {variant} ({msg})"));
            }
            if let (Some(p), true) = (exp.get("p"), matches!(class, "Cast" | "Bounds" | "WrongKind")) {
                let expp = from_model(p).map_err(|e| format!("TOOL: payload: {e}"))?;
                match payload {
                    Some(g) if value_matches(&expp, g) || (is_nan_val(&expp) && is_nan_val(g)) => {}
                    other => return Err(format!("error payload differs: expected {expp:?}, got {other:?}")),
                }
            }
            if let Some(n) = exp.get("n") {
                let expn = uncps(n).map_err(|e| format!("TOOL: name: {e}"))?;
                if name.as_deref() != Some(expn.as_str()) {
                    return Err(format!("error names {name:?}, expected {expn:?}"));
                }
            }
            if let Some(m) = exp.get("msg") {
                let expm = uncps(m).map_err(|e| format!("TOOL: msg: {e}"))?;
                if msg != &expm {
                    return Err(format!("error message {msg:?}, expected {expm:?}"));
                }
            }
            Ok(())
        }
        (_, Obs::Panic(_)) => unreachable!(),
    }
}

fn is_nan_val(v: &Value) -> bool {
    matches!(v, Value::Float(f) if f.is_nan())
}

/// self-test of the projection: to_model / from_model round trip on boundary values
pub fn selftest() -> Result<usize, String> {
    use std::str::FromStr;
    let mut vals: Vec<Value> = vec![Value::None, Value::Bool(true), Value::Bool(false)];
    for i in [0i128, 1, -1, 32767, 32768, i128::MAX, i128::MIN, i128::MAX - 1, 1 << 96, -(1 << 64)] {
        vals.push(Value::Int(i));
    }
    for f in [0.0f64, -0.0, 1.0, -1.5, 0.1, f64::MAX, f64::MIN_POSITIVE, 5e-324, 1e-310, f64::INFINITY, f64::NEG_INFINITY, 2f64.powi(53), 1e40, 123456.789e-12] {
        vals.push(Value::Float(f));
    }
    for d in ["0", "0.0", "1.50", "-2.5", "79228162514264337593543950335", "-79228162514264337593543950335", "0.0000000000000000000000000001"] {
        vals.push(Value::Decimal(Decimal::from_str(d).unwrap()));
    }
    for s in ["", "a", "é ß\u{3000}\u{1F600}", "\"\\\n"] {
        vals.push(Value::String(s.into()));
    }
    for d in [DateTime::<Utc>::MIN_UTC, DateTime::<Utc>::MAX_UTC, DateTime::from_timestamp(0, 0).unwrap(), DateTime::from_timestamp(-1, 500_000_000).unwrap(), DateTime::from_timestamp(1438226773, 123456789).unwrap()] {
        vals.push(Value::DateTime(d));
    }
    for d in [TimeDelta::MAX, TimeDelta::MIN, TimeDelta::zero(), TimeDelta::new(-2, 500_000_000).unwrap(), TimeDelta::milliseconds(1500)] {
        vals.push(Value::Duration(d));
    }
    let all = vals.clone();
    vals.push(Value::Vec(all.clone()));
    vals.push(Value::Map(all.iter().enumerate().map(|(i, v)| (format!("k{i}"), v.clone())).collect()));
    for v in &vals {
        let j = to_model(v);
        let back = from_model(&j)?;
        let same = match (v, &back) {
            (Value::Float(a), Value::Float(b)) => a.to_bits() == b.to_bits(),
            (Value::Decimal(a), Value::Decimal(b)) => a == b && a.scale() == b.scale(),
            _ => value_matches(v, &back) && to_model(&back) == j,
        };
        if !same {
            return Err(format!("round trip failed for {v:?}: {j} -> {back:?}"));
        }
    }
    Ok(vals.len())
}
