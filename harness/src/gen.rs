//! (V) recorder: seeded random deep expressions (type-directed, boundary-heavy leaves), evaluated by
//! the real code; one NDJSON record per evaluation for TLC (EvalTrace.tla).
//! Generators draw only from the modelled alphabets (DESIGN section 8).

use crate::exec::*;
use crate::model::*;
use crate::scenario::build_ruleset;
use chrono::{DateTime, TimeDelta, Utc};
use rand::rngs::StdRng;
use rand::{Rng, SeedableRng};
use reval::expr::{Expr, Index};
use reval::value::Value;
use rust_decimal::Decimal;
use serde_json::{json, Value as J};
use std::collections::BTreeMap;

#[derive(Clone, Copy, PartialEq, Debug)]
pub enum Ty { Any, Bool, Int, Float, Dec, Str, DT, Dur, Vec, Map }
const TYS: [Ty; 9] = [Ty::Bool, Ty::Int, Ty::Float, Ty::Dec, Ty::Str, Ty::DT, Ty::Dur, Ty::Vec, Ty::Map];

#[derive(Clone, Copy, PartialEq, Debug)]
pub enum Profile { Arith, Types, NoneHeavy, Lazy, Paths }

pub fn profile_of(s: &str) -> Profile {
    match s { "types" => Profile::Types, "none" => Profile::NoneHeavy, "lazy" => Profile::Lazy, "paths" => Profile::Paths, _ => Profile::Arith }
}

pub struct Gen { pub rng: StdRng, pub profile: Profile, stash: Vec<(Ty, Expr)> }

const STRS: &[&str] = &["", "a", "A", "abc", " a ", "1", "-7", "+5", "1.5", "true", "x y", "é", "ß", "aBc", "\u{3000}z ", "12abc", "170141183460469231731687303715884105728", "1e5", "inf", "NaN", ".5", "5.", "1_0", "0x1",
    "the quick brown fox jumps", "  Padded Value With Spaces\t ", "quick brown", "ÀÉÎõü straße ÿµ×÷ªº MiXeD case 0123456789", "0123456789012345678", "aaaaaaaaaaaaaaaaaaaaaaaaaaaaaaaaab", "aaaaaaaaaaaaaaaaab"];
const DEC_STRS: &[&str] = &["1", "1.50", "-2.5", "0.1", "abc", "", "79228162514264337593543950335", "79228162514264337593543950336", "-0.000"];
const DATE_STRS: &[&str] = &["2015-7-30 3:26:13 utc", " 2015-07-30t03:26:13.123456789123+0530 ", "+12015-07-30T03:26:13Z", "-0001-01-01T00:00:00Z", "2015-07-30T24:00:00Z", "2015-07-30T03:26:13+24:00",
    "2015-07-30T03:26:13\u{2212}01:00", "2015-07-30T03:26:60Z", "2015-07-30T03:26:13.Z", "2015-07-30T03:26:13 +02 : 00", "2016-02-29T00:00:00z", "2100-02-29T00:00:00Z", "2015-07-30T03:26:13+02", "1970-01-01T00:00:00Z", "2015-07-30T03:26:13Z", "2015-07-30T03:26:13.5+02:00", "1969-12-31T23:59:59.999999999Z", "2000-02-29T12:00:00-05:30", "2015-07-30", "2015-07-30T03:26:13", "2015-13-01T00:00:00Z", "2015-02-30T00:00:00Z", "abc", "1", ""];

impl Gen {
    pub fn new(seed: u64, profile: Profile) -> Self { Gen { rng: StdRng::seed_from_u64(seed), profile, stash: Vec::new() } }
    fn p(&mut self, prob: f64) -> bool { self.rng.gen::<f64>() < prob }
    pub fn pick<T: Copy>(&mut self, xs: &[T]) -> T { xs[self.rng.gen_range(0..xs.len())] }
    pub fn pick_ty(&mut self) -> Ty { self.pick(&TYS) }

    pub fn int(&mut self) -> i128 {
        let bounds: [i128; 28] = [15000000000000000000, u64::MAX as i128, 9007199254740993, 1000000000000000, 4294967296, -15000000000000000000, 0, 1, -1, 2, 3, 7, -7, 10, 255, 1 << 15, 1 << 31, (1 << 63) - 1, 1 << 63, -(1 << 63), 1 << 64, 1 << 96, i128::MAX, i128::MIN,
            9223372036854775, 8210266876799, -8334601228800, 15250284452];
        match self.rng.gen_range(0..10) {
            0..=3 => self.pick(&bounds),
            4 => self.pick(&bounds).wrapping_add(self.rng.gen_range(-2..=2)),
            5..=7 => self.rng.gen_range(-100..100),
            8 => { let bits = self.rng.gen_range(1..127); let v: i128 = self.rng.gen::<i128>() >> (127 - bits); v }
            _ => self.rng.gen::<i64>() as i128,
        }
    }
    pub fn float(&mut self) -> f64 {
        let pool = [0.0, -0.0, 1.0, -1.0, 0.5, 1.5, 2.5, -2.5, 3.0, 0.1, 9007199254740992.0, 9.5e18, 1.5e19, 1e15, 123456789012345680.0, 7.9e28, 1e-10, 2.5e-20, 9.223372036854775807e18, 1.7014118346046923e38, 1e40, f64::MAX, 5e-324, f64::INFINITY, f64::NEG_INFINITY, f64::NAN, 7.25, 1e-7];
        match self.rng.gen_range(0..12) {
            0..=4 => self.pick(&pool),
            5..=6 => (self.rng.gen_range(-2000..2000) as f64) / 8.0,
            // a random significand at a moderate binary exponent: the range in which float -> decimal conversion is busy
            10 => (self.rng.gen_range(1..(1i64 << 53)) as f64) * 2f64.powi(self.rng.gen_range(-150..45)) * if self.p(0.5) { -1.0 } else { 1.0 },
            // whole numbers between the integer widths (2^53 .. 2^96)
            11 => ((self.rng.gen::<u64>() >> self.rng.gen_range(0..12)) as f64) * 2f64.powi(self.rng.gen_range(0..36)),
            7 => f64::from_bits(self.rng.gen::<u64>()),
            8 => (self.rng.gen::<i64>() as f64) * 2f64.powi(self.rng.gen_range(-80..80)),
            _ => self.rng.gen_range(-1e6..1e6),
        }
    }
    pub fn dec(&mut self) -> Decimal {
        let max = Decimal::MAX;
        match self.rng.gen_range(0..10) {
            0 => max, 1 => Decimal::MIN, 2 => Decimal::new(1, 28), 3 => Decimal::ZERO, 4 => Decimal::new(0, 1),
            5..=7 => Decimal::new(self.rng.gen_range(-100000..100000), self.rng.gen_range(0..5)),
            8 => { let m: i128 = (self.rng.gen::<i128>() >> 33).abs() % (1i128 << 95); Decimal::from_i128_with_scale(if self.p(0.5) { m } else { -m }, self.rng.gen_range(0..=28)) }
            _ => max - Decimal::new(self.rng.gen_range(0..3), 0),
        }
    }
    pub fn string(&mut self) -> String { self.pick(STRS).to_string() }
    pub fn dt(&mut self) -> DateTime<Utc> {
        match self.rng.gen_range(0..8) {
            0 => DateTime::<Utc>::MIN_UTC, 1 => DateTime::<Utc>::MAX_UTC, 2 => DateTime::from_timestamp(0, 0).unwrap(),
            3 => DateTime::from_timestamp(-1, 500_000_000).unwrap(), 4 => DateTime::from_timestamp(951868799, 0).unwrap(),
            5 => DateTime::from_timestamp(self.rng.gen_range(-8334601228800i64..8210266876799), self.rng.gen_range(0..1_000_000_000)).unwrap(),
            _ => DateTime::from_timestamp(self.rng.gen_range(-4000000000i64..4000000000), self.rng.gen_range(0..1_000_000_000)).unwrap(),
        }
    }
    pub fn dur(&mut self) -> TimeDelta {
        match self.rng.gen_range(0..8) {
            0 => TimeDelta::MAX, 1 => TimeDelta::MIN, 2 => TimeDelta::zero(), 3 => TimeDelta::milliseconds(1500), 4 => TimeDelta::seconds(-691200),
            5 => TimeDelta::milliseconds(self.rng.gen::<i64>().max(-i64::MAX)),
            _ => TimeDelta::milliseconds(self.rng.gen_range(-10_000_000_000i64..10_000_000_000)),
        }
    }
    pub fn value(&mut self, ty: Ty, depth: u32) -> Value {
        let none_p = if self.profile == Profile::NoneHeavy { 0.25 } else { 0.03 };
        if self.p(none_p) { return Value::None; }
        match ty {
            Ty::Any => { let t = self.pick(&TYS); self.value(t, depth) }
            Ty::Bool => Value::Bool(self.p(0.5)),
            Ty::Int => Value::Int(self.int()),
            Ty::Float => Value::Float(self.float()),
            Ty::Dec => Value::Decimal(self.dec()),
            Ty::Str => Value::String(self.string()),
            Ty::DT => Value::DateTime(self.dt()),
            Ty::Dur => Value::Duration(self.dur()),
            Ty::Vec => { let n = if self.p(0.25) { self.rng.gen_range(4..8) } else { self.rng.gen_range(0..4) }; Value::Vec((0..n).map(|_| if depth == 0 { Value::Int(self.int()) } else { self.value(Ty::Any, depth - 1) }).collect()) }
            Ty::Map => { let n = if self.p(0.25) { self.rng.gen_range(4..9) } else { self.rng.gen_range(0..4) }; let keys = ["a", "A", "ab", "b", "facts", "k", "aa", "B", "c", "key_with_a_long_name", "z"];
                Value::Map((0..n).map(|_| (self.pick(&keys).to_string(), if depth == 0 { Value::Int(self.int()) } else { self.value(Ty::Any, depth - 1) })).collect()) }
        }
    }

    fn leaf(&mut self, ty: Ty) -> Expr {
        let r = self.rng.gen_range(0..10);
        let name = match ty { Ty::Bool => "y", Ty::Int => "a", Ty::Float => "c", Ty::Dec => "d", Ty::Str => "b", Ty::DT => "t", Ty::Dur => "u", Ty::Vec => "v", Ty::Map => "m", Ty::Any => "a" };
        if r < 2 { Expr::reff(name) }
        else if r == 2 && self.profile != Profile::Arith { if self.p(0.5) { Expr::symbol("s") } else { Expr::reff("zz") } }
        else if r == 3 && self.profile == Profile::Lazy { let k = self.rng.gen_range(1..=4); Expr::func(format!("p{k}"), Expr::value(k as i128)) }
        else if matches!(ty, Ty::Vec | Ty::Map) && r < 6 { Expr::reff(name) }
        else { Expr::Value(self.value(ty, 1)) }
    }

    /// structurally identical sub-expressions occur in real rules (`x == a or x == b`): with a small probability an
    /// earlier sub-expression of the same type is used again
    pub fn expr(&mut self, ty: Ty, depth: u32) -> Expr {
        if depth >= 1 && !self.stash.is_empty() && self.p(0.08) {
            let k = self.rng.gen_range(0..self.stash.len());
            if self.stash[k].0 == ty || ty == Ty::Any || self.p(0.1) { return self.stash[k].1.clone(); }
        }
        let e = self.expr_new(ty, depth);
        if depth <= 3 && self.stash.len() < 12 && self.p(0.3) { self.stash.push((ty, e.clone())); }
        e
    }
    pub fn clear_stash(&mut self) { self.stash.clear(); }

    /// `n` operands joined by the same binary operator on the left spine (as the parser builds `a op b op c op d`)
    fn chain(&mut self, n: usize, oty: Ty, d: u32, mk: fn(Expr, Expr) -> Expr) -> Expr {
        let mut e = self.expr(oty, d);
        for _ in 1..n { let r = self.expr(oty, d); e = mk(e, r); }
        e
    }

    fn expr_new(&mut self, ty: Ty, depth: u32) -> Expr {
        let wrong = match self.profile { Profile::Types => 0.25, Profile::Arith => 0.03, _ => 0.08 };
        let ty = if ty == Ty::Any || self.p(wrong) { self.pick(&TYS) } else { ty };
        if depth == 0 || self.p(0.12) { return self.leaf(ty); }
        let d = depth - 1;
        let num = self.pick(&[Ty::Int, Ty::Float, Ty::Dec]);
        let ord = self.pick(&[Ty::Int, Ty::Float, Ty::Dec, Ty::DT, Ty::Dur]);
        // generic shapes valid for every type
        match self.rng.gen_range(0..16) {
            0 => return Expr::iif(self.expr(Ty::Bool, d), self.expr(ty, d), self.expr(ty, d)),
            // the cacheable function only sees arguments whose representation is canonical: whether two computed
            // Decimals / Floats / containers are "the same argument" depends on the scale or zero sign the arithmetic
            // happens to produce, which the specification deliberately leaves open (DESIGN 4.4)
            1 => { let f = if self.p(0.5) && matches!(ty, Ty::Bool | Ty::Int | Ty::Str | Ty::DT | Ty::Dur) { "f" } else { "g" }; return Expr::func(f, self.expr(ty, d)); }
            2 => { let n = if self.p(0.3) { self.rng.gen_range(4..7usize) } else { 3 }; let i = self.rng.gen_range(0..n); let mut items: Vec<Expr> = (0..n).map(|_| self.expr(Ty::Any, d.min(1))).collect(); items[i] = self.expr(ty, d);
                   return Expr::index(Expr::Vec(items), Index::Vec(if self.p(0.85) { i } else { i + n })); }
            3 if self.profile == Profile::Paths => { let key = self.pick(&["a", "A", "ab", "k", "facts"]);
                   let mut m = BTreeMap::new(); m.insert(key.to_string(), self.expr(ty, d)); m.insert("zz".to_string(), self.expr(Ty::Any, 0));
                   return Expr::index(Expr::Map(m), Index::Map(self.pick(&["a", "A", "ab", "k", "facts", "zz"]).to_string())); }
            6 if depth >= 2 => {
                   // a ladder `if c1 then .. else if c2 then .. else if c3 ..` (conditions may be of the wrong type)
                   let n = self.rng.gen_range(2..5); let dd = d.min(2);
                   let mut e = self.expr(ty, dd);
                   for _ in 0..n { let c = if self.p(0.2) { self.expr(Ty::Any, 0) } else { self.expr(Ty::Bool, dd.min(1)) }; e = Expr::iif(c, self.expr(ty, dd.min(1)), e); }
                   return e; }
            7 if depth >= 2 && matches!(ty, Ty::Bool | Ty::Int | Ty::Float | Ty::Dec) => {
                   let n = self.rng.gen_range(4..7); let dd = d.min(1);
                   return match ty {
                       Ty::Bool => match self.rng.gen_range(0..4) {
                           0 => self.chain(n, Ty::Bool, dd, Expr::and), 1 => self.chain(n, Ty::Bool, dd, Expr::or),
                           2 => { let l = self.expr(Ty::Any, dd); let mut e = Expr::eq(l.clone(), self.expr(Ty::Any, 0)); for _ in 1..n { e = Expr::or(e, Expr::eq(l.clone(), self.expr(Ty::Any, 0))); } e }
                           _ => self.chain(n, Ty::Bool, dd, Expr::bitwise_xor) },
                       Ty::Int => match self.rng.gen_range(0..4) { 0 => self.chain(n, Ty::Int, dd, Expr::add), 1 => self.chain(n, Ty::Int, dd, Expr::mult), 2 => self.chain(n, Ty::Int, dd, Expr::sub), _ => self.chain(n, Ty::Int, dd, Expr::bitwise_or) },
                       _ => match self.rng.gen_range(0..3) { 0 => self.chain(n, ty, dd, Expr::add), 1 => self.chain(n, ty, dd, Expr::mult), _ => self.chain(n, ty, dd, Expr::sub) },
                   }; }
            4 | 5 if self.profile == Profile::Paths || (self.profile == Profile::Types && self.p(0.5)) => {
                   // a chain of 1..4 steps into the input (long vectors / wide maps, non-first non-last positions)
                   let mut e = if self.p(0.2) { Expr::reff("facts") } else { Expr::reff(self.pick(&["v", "m", "a", "zz"])) };
                   for _ in 0..self.rng.gen_range(1..5) {
                       e = if self.p(0.5) { Expr::index(e, Index::Vec(self.rng.gen_range(0..8))) }
                           else { Expr::index(e, Index::Map(self.pick(&["a", "A", "ab", "b", "k", "facts", "aa", "B", "c", "key_with_a_long_name", "z", "v", "m"]).to_string())) };
                   }
                   return e; }
            _ => {}
        }
        match ty {
            Ty::Any => unreachable!(),
            Ty::Bool => match self.rng.gen_range(0..15) {
                0 => Expr::not(self.expr(Ty::Bool, d)),
                1 => Expr::and(self.expr(Ty::Bool, d), self.expr(Ty::Bool, d)),
                2 => Expr::or(self.expr(Ty::Bool, d), self.expr(Ty::Bool, d)),
                3 => { let t = self.pick(&TYS); Expr::eq(self.expr(t, d), self.expr(t, d)) }
                4 => { let t = self.pick(&TYS); Expr::neq(self.expr(t, d), self.expr(t, d)) }
                5 => Expr::gt(self.expr(ord, d), self.expr(ord, d)),
                6 => Expr::gte(self.expr(ord, d), self.expr(ord, d)),
                7 => Expr::lt(self.expr(ord, d), self.expr(ord, d)),
                8 => Expr::lte(self.expr(ord, d), self.expr(ord, d)),
                9 => match self.rng.gen_range(0..6) { 0 => Expr::contains(self.expr(Ty::Vec, d), self.expr(Ty::Any, d)),
                                                     // membership in a written-out list: the item is (often) one of the elements, and
                                                     // an element may fail to evaluate (before or after the matching one)
                                                     4 | 5 => { let t = self.pick(&[Ty::Int, Ty::Str, Ty::Bool, Ty::Dec, Ty::Float]); let n = self.rng.gen_range(2..7);
                                                          let mut items: Vec<Expr> = (0..n).map(|_| self.expr(t, 0)).collect();
                                                          let item = if self.p(0.7) { items[self.rng.gen_range(0..n)].clone() } else { self.expr(t, d.min(1)) };
                                                          if self.p(0.5) { let k = self.rng.gen_range(0..n);
                                                              items[k] = match self.rng.gen_range(0..4) { 0 => Expr::div(Expr::value(1), Expr::value(0)), 1 => Expr::reff("zz"),
                                                                  2 => Expr::add(Expr::value(1), Expr::value("x".to_string())), _ => Expr::func("p4", Expr::value(4)) }; }
                                                          Expr::contains(Expr::Vec(items), item) } 1 => Expr::contains(self.expr(Ty::Str, d), self.expr(Ty::Str, d)),
                                                     2 => Expr::contains(self.expr(Ty::Map, d), self.expr(Ty::Str, d)), _ => Expr::contains(self.expr(Ty::Int, d), self.expr(Ty::Int, d)) },
                10 => if self.p(0.5) { Expr::some(self.expr(Ty::Any, d)) } else { Expr::none(self.expr(Ty::Any, d)) },
                11 => { let k = self.rng.gen_range(0..3); let (l, r) = (self.expr(Ty::Bool, d), self.expr(Ty::Bool, d));
                        match k { 0 => Expr::bitwise_and(l, r), 1 => Expr::bitwise_or(l, r), _ => Expr::bitwise_xor(l, r) } }
                12 => { // `x == a or x == b or x == c`: one subject tested against several candidates
                        let n = self.rng.gen_range(2..6); let t = self.pick(&TYS); let l = self.expr(t, d.min(1));
                        let mut e = Expr::eq(l.clone(), self.expr(t, 0));
                        for _ in 1..n { let c = Expr::eq(l.clone(), self.expr(t, 0)); e = if self.p(0.8) { Expr::or(e, c) } else { Expr::and(e, c) }; }
                        e }
                13 => { let n = self.rng.gen_range(3..6); if self.p(0.5) { self.chain(n, Ty::Bool, d.min(1), Expr::and) } else { self.chain(n, Ty::Bool, d.min(1), Expr::or) } }
                _ => self.leaf(Ty::Bool),
            },
            Ty::Int => match self.rng.gen_range(0..14) {
                0 => Expr::add(self.expr(Ty::Int, d), self.expr(Ty::Int, d)),
                1 => Expr::sub(self.expr(Ty::Int, d), self.expr(Ty::Int, d)),
                2 => Expr::mult(self.expr(Ty::Int, d), self.expr(Ty::Int, d)),
                3 => Expr::div(self.expr(Ty::Int, d), self.expr(Ty::Int, d)),
                4 => Expr::rem(self.expr(Ty::Int, d), self.expr(Ty::Int, d)),
                5 => Expr::neg(self.expr(Ty::Int, d)),
                6 => { let t = self.pick(&[Ty::Float, Ty::Dec, Ty::Str, Ty::Int]); Expr::int(self.expr(t, d)) }
                7 => { let k = self.rng.gen_range(0..3); let (l, r) = (self.expr(Ty::Int, d), self.expr(Ty::Int, d));
                       match k { 0 => Expr::bitwise_and(l, r), 1 => Expr::bitwise_or(l, r), _ => Expr::bitwise_xor(l, r) } }
                8 => { let e = self.expr(Ty::DT, d); match self.rng.gen_range(0..6) { 0 => Expr::year(e), 1 => Expr::month(e), 2 => Expr::day(e), 3 => Expr::hour(e), 4 => Expr::minute(e), _ => Expr::second(e) } }
                9 => { let e = self.expr(Ty::Dur, d); match self.rng.gen_range(0..5) { 0 => Expr::week(e), 1 => Expr::day(e), 2 => Expr::hour(e), 3 => Expr::minute(e), _ => Expr::second(e) } }
                _ => self.leaf(Ty::Int),
            },
            Ty::Float | Ty::Dec => match self.rng.gen_range(0..12) {
                0 => Expr::add(self.expr(ty, d), self.expr(ty, d)),
                1 => Expr::sub(self.expr(ty, d), self.expr(ty, d)),
                2 => Expr::mult(self.expr(ty, d), self.expr(ty, d)),
                3 => Expr::div(self.expr(ty, d), self.expr(ty, d)),
                4 => Expr::rem(self.expr(ty, d), self.expr(ty, d)),
                5 => Expr::neg(self.expr(ty, d)),
                6 => Expr::floor(self.expr(ty, d)),
                7 => Expr::round(self.expr(ty, d)),
                8 => Expr::fract(self.expr(ty, d)),
                9 => { if ty == Ty::Float { let t = self.pick(&[Ty::Int, Ty::Str, Ty::Float, Ty::Dec]); Expr::float(self.expr(t, d)) }
                       else if self.p(0.3) { Expr::dec(Expr::value(self.pick(DEC_STRS).to_string())) } else { let t = self.pick(&[Ty::Int, Ty::Dec, Ty::Float]); Expr::dec(self.expr(t, d)) } }
                _ => self.leaf(ty),
            },
            Ty::Str => match self.rng.gen_range(0..6) {
                0 => Expr::uppercase(self.expr(Ty::Str, d)), 1 => Expr::lowercase(self.expr(Ty::Str, d)), 2 => Expr::trim(self.expr(Ty::Str, d)),
                _ => self.leaf(Ty::Str),
            },
            Ty::DT => match self.rng.gen_range(0..7) {
                0 => Expr::datetime(self.expr(Ty::Int, d)), 1 => Expr::datetime(Expr::value(self.pick(DATE_STRS).to_string())),
                2 => Expr::add(self.expr(Ty::DT, d), self.expr(Ty::Dur, d)), 3 => Expr::sub(self.expr(Ty::DT, d), self.expr(Ty::Dur, d)),
                4 => Expr::datetime(self.expr(Ty::DT, d)),
                _ => self.leaf(Ty::DT),
            },
            Ty::Dur => match self.rng.gen_range(0..8) {
                0 => Expr::duration(self.expr(Ty::Int, d)),
                1 => { let e = self.expr(Ty::Int, d); match self.rng.gen_range(0..5) { 0 => Expr::week(e), 1 => Expr::day(e), 2 => Expr::hour(e), 3 => Expr::minute(e), _ => Expr::second(e) } }
                2 => Expr::sub(self.expr(Ty::DT, d), self.expr(Ty::DT, d)), 3 => Expr::sub(self.expr(Ty::Dur, d), self.expr(Ty::Dur, d)),
                4 => Expr::duration(self.expr(Ty::Dur, d)),
                _ => self.leaf(Ty::Dur),
            },
            Ty::Vec => { let n = if self.p(0.2) { self.rng.gen_range(4..7) } else { self.rng.gen_range(0..4) }; let dd = if n > 3 { d.min(1) } else { d }; Expr::Vec((0..n).map(|_| self.expr(num, dd)).collect()) }
            Ty::Map => { let n = if self.p(0.2) { self.rng.gen_range(3..6) } else { self.rng.gen_range(0..3) }; let dd = if n > 2 { d.min(1) } else { d }; Expr::Map((0..n).map(|i| (["a", "k", "ab", "A", "zz", "facts"][i].to_string(), self.expr(Ty::Any, dd))).collect()) }
        }
    }

    pub fn input(&mut self) -> Value {
        if self.profile == Profile::Paths && self.p(0.15) { return self.value(Ty::Any, 2); }
        if self.p(0.03) { return Value::None; }
        let mut m = BTreeMap::new();
        for (k, t) in [("a", Ty::Int), ("b", Ty::Str), ("c", Ty::Float), ("d", Ty::Dec), ("t", Ty::DT), ("u", Ty::Dur), ("v", Ty::Vec), ("m", Ty::Map), ("y", Ty::Bool)] {
            if !self.p(0.04) { m.insert(k.to_string(), self.value(t, 2)); }
        }
        if self.profile == Profile::Paths { m.insert("facts".to_string(), self.value(Ty::Any, 1)); }
        Value::Map(m)
    }
}

fn env_json(input: &Value) -> J {
    let f = |name: &str, cacheable: bool, script: J| json!({"name": cps(name), "cacheable": cacheable, "suspend": 0, "script": script});
    json!({
        "input": to_model(input),
        "syms": [[cps("s"), to_model(&Value::Int(42))]],
        "funcs": [f("f", true, json!([{"r": "echo"}])), f("g", false, json!([{"r": "echo"}])),
                  f("p1", false, json!([{"r": "v", "v": to_model(&Value::Bool(true))}])), f("p2", false, json!([{"r": "v", "v": to_model(&Value::Bool(false))}])),
                  f("p3", false, json!([{"r": "v", "v": to_model(&Value::None)}])), f("p4", false, json!([{"r": "fail", "msg": cps("boom")}]))],
    })
}

/// record `n` random evaluations; returns (records, panics)
pub fn record(seed: u64, n: usize, profile: &str, depth: u32) -> Result<(Vec<J>, Vec<J>), String> {
    let mut g = Gen::new(seed, profile_of(profile));
    let mut recs = Vec::new();
    let mut panics = Vec::new();
    for k in 0..n {
        let ty = g.pick(&TYS);
        g.clear_stash();
        let dd = 1 + (k as u32 % depth);
        let e = g.expr(ty, dd);
        let input = g.input();
        let env = env_json(&input);
        let built = build_ruleset(&env, vec![("r".to_string(), e.clone())])?;
        let res = block_on(built.ruleset.evaluate_value(&input));
        let obs = match res {
            Err(p) => Obs::Panic(p),
            Ok(Err(err)) => classify(&err),
            Ok(Ok(mut outs)) => match outs.remove(0).value { Ok(v) => Obs::Ok(v), Err(e) => classify(&e) },
        };
        let calls: Vec<J> = built.log.snapshot().iter().map(|c| json!({"f": cps(&c.func), "arg": to_model(&c.arg)})).collect();
        let rec = json!({"prog": expr_to_model(&e), "env": env, "x": obs_to_model(&obs), "calls": calls, "text": e.to_string()});
        if let Obs::Panic(_) = obs { panics.push(rec.clone()); }
        recs.push(rec);
    }
    Ok((recs, panics))
}
