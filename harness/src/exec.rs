//! Hand-rolled executor (noop waker, poll-by-poll control, drop = cancel) and `ModelFn`, a
//! `UserFunction` with scripted per-invocation results, k suspensions per call and a shared
//! invocation log.  Everything the properties say about schedules is driven through these.

use crate::model::{from_model, to_model, uncps};
use async_trait::async_trait;
use reval::prelude::*;
use serde_json::{json, Value as J};
use std::future::Future;
use std::panic::{catch_unwind, AssertUnwindSafe};
use std::pin::Pin;
use std::sync::atomic::{AtomicUsize, Ordering};
use std::sync::{Arc, Mutex};
use std::task::{Context, Poll, Waker};

pub fn panic_msg(p: Box<dyn std::any::Any + Send>) -> String {
    if let Some(s) = p.downcast_ref::<&str>() {
        s.to_string()
    } else if let Some(s) = p.downcast_ref::<String>() {
        s.clone()
    } else {
        "<non-string panic>".into()
    }
}

struct WakeFlag(std::sync::atomic::AtomicBool);
impl std::task::Wake for WakeFlag {
    fn wake(self: Arc<Self>) {
        self.0.store(true, Ordering::SeqCst);
    }
    fn wake_by_ref(self: &Arc<Self>) {
        self.0.store(true, Ordering::SeqCst);
    }
}

/// poll a future once; a panic inside poll is returned as Err.  The waker only records that it was used: a poll
/// that returns Pending WITHOUT having woken (or kept) the waker would never be polled again by an executor that
/// waits for wake-ups - this executor polls again regardless, so that case is reported as an error instead
/// (the harness's own user functions wake before they return Pending).
pub fn poll_once<T>(fut: &mut Pin<Box<dyn Future<Output = T> + '_>>) -> Result<Poll<T>, String> {
    let flag = Arc::new(WakeFlag(std::sync::atomic::AtomicBool::new(false)));
    let waker = Waker::from(flag.clone());
    let mut cx = Context::from_waker(&waker);
    let r = catch_unwind(AssertUnwindSafe(|| fut.as_mut().poll(&mut cx))).map_err(panic_msg)?;
    drop(cx);
    drop(waker);
    if r.is_pending() && !flag.0.load(Ordering::SeqCst) && Arc::strong_count(&flag) == 1 {
        return Err("the evaluation returned Pending without waking or keeping its waker: an executor that waits for wake-ups would never poll it again".into());
    }
    Ok(r)
}

/// run a future to completion on the calling thread (bounded number of polls)
/// (no Send bound anywhere in the harness proper: whether the futures are Send is C18's question, asked by the
/// probes crate, and must not decide whether the other checks can be built)
pub fn block_on<T>(fut: impl Future<Output = T>) -> Result<T, String> {
    let mut fut: Pin<Box<dyn Future<Output = T> + '_>> = Box::pin(fut);
    for _ in 0..1_000_000 {
        match poll_once(&mut fut)? {
            Poll::Ready(v) => return Ok(v),
            Poll::Pending => {}
        }
    }
    Err("future still pending after 1e6 polls".into())
}

#[derive(Clone, Debug)]
pub enum FnRes {
    Val(Value),
    /// the per-function invocation ordinal (1-based) as an Int
    Counter,
    /// [argument, ordinal]
    Tagged,
    Echo,
    Fail(String),
    /// fails with an error whose concrete type is reval::Error (InvalidType)
    FailType,
    /// twice the Int argument (the README's example function); fails on anything else
    Double,
}

tokio::task_local! {
    /// the id of the evaluation a user function is called from (set by the recorders with EV.scope)
    pub static EV: usize;
}

#[derive(Clone, Debug)]
pub struct Invocation {
    pub ev: usize,
    pub seq: usize,
    pub func: String,
    pub arg: Value,
    pub ordinal: usize,
}

/// what the abstract cache protocol (spec/CacheAbs.tla) can see of an execution: evaluations starting, finishing and
/// being dropped (logged by the recorder) and the scripted user functions being entered and returning (logged by
/// the functions themselves); `seq` is one counter for all of them, taken under the lock that protects the list
#[derive(Clone, Debug)]
pub struct Event {
    pub seq: usize,
    pub ev: usize,
    pub kind: &'static str,
    pub func: String,
    pub arg: Option<Value>,
    pub ordinal: usize,
    pub ok: bool,
}

#[derive(Default)]
pub struct Log {
    pub seq: AtomicUsize,
    pub entries: Mutex<Vec<Invocation>>,
    pub events: Mutex<Vec<Event>>,
}

impl Log {
    pub fn event(&self, ev: usize, kind: &'static str, func: &str, arg: Option<&Value>, ordinal: usize, ok: bool) {
        let mut events = self.events.lock().unwrap();
        let seq = self.seq.fetch_add(1, Ordering::SeqCst);
        events.push(Event { seq, ev, kind, func: func.to_string(), arg: arg.cloned(), ordinal, ok });
    }
    pub fn snapshot(&self) -> Vec<Invocation> {
        self.entries.lock().unwrap().clone()
    }
    pub fn to_model(&self) -> J {
        J::Array(
            self.snapshot()
                .iter()
                .map(|i| json!({"f": crate::model::cps(&i.func), "arg": to_model(&i.arg), "n": i.ordinal}))
                .collect(),
        )
    }
}

pub struct ModelFn {
    pub name: &'static str,
    pub cacheable: bool,
    /// result of the n-th invocation (1-based); the last entry repeats
    pub script: Vec<FnRes>,
    /// how many times each call returns Pending before completing
    pub suspend: usize,
    pub count: AtomicUsize,
    pub log: Arc<Log>,
}

struct YieldN(usize);
impl Future for YieldN {
    type Output = ();
    fn poll(mut self: Pin<&mut Self>, cx: &mut Context<'_>) -> Poll<()> {
        if self.0 == 0 {
            Poll::Ready(())
        } else {
            self.0 -= 1;
            cx.waker().wake_by_ref();
            Poll::Pending
        }
    }
}

#[async_trait]
impl UserFunction for ModelFn {
    async fn call(&self, params: Value) -> FunctionResult {
        // the invocation is logged at entry: this is the linearisation point "Invoke"
        let ordinal = self.count.fetch_add(1, Ordering::SeqCst) + 1;
        let ev = EV.try_with(|v| *v).unwrap_or(0);
        // sequence number and entry are taken under one lock: the log order IS the order of the atomic counter
        {
            let mut entries = self.log.entries.lock().unwrap();
            let seq = self.log.seq.fetch_add(1, Ordering::SeqCst);
            entries.push(Invocation { ev, seq, func: self.name.to_string(), arg: params.clone(), ordinal });
        }
        self.log.event(ev, "invoke", self.name, Some(&params), ordinal, true);
        YieldN(self.suspend).await;
        let res = if self.script.is_empty() { &FnRes::Echo } else { &self.script[(ordinal - 1).min(self.script.len() - 1)] };
        let out: FunctionResult = match res {
            FnRes::Val(v) => Ok(v.clone()),
            FnRes::Counter => Ok(Value::Int(ordinal as i128)),
            FnRes::Tagged => Ok(Value::Vec(vec![params, Value::Int(ordinal as i128)])),
            FnRes::Echo => Ok(params),
            FnRes::Fail(m) => Err(anyhow::anyhow!("{}", m)),
            FnRes::FailType => Err(reval::Error::InvalidType.into()),
            FnRes::Double => match params {
                Value::Int(i) => i.checked_mul(2).map(Value::Int).ok_or_else(|| anyhow::anyhow!("not a small int")),
                _ => Err(anyhow::anyhow!("not a small int")),
            },
        };
        // the linearisation point "Return": the result exists, the library has not seen it yet
        self.log.event(ev, "ret", self.name, None, ordinal, out.is_ok());
        out
    }
    fn name(&self) -> &'static str {
        self.name
    }
    fn cacheable(&self) -> bool {
        self.cacheable
    }
}

// ---- stateless user functions: unit structs, as the library's documentation writes its examples.  A Box of a
// zero-sized type does not allocate, so all of them "live" at the same address; they cannot hold a reference to
// the log, so the evaluation's log is found through a thread-local (the replay engines are single-threaded).
thread_local! {
    pub static ZLOG: std::cell::RefCell<Option<Arc<Log>>> = std::cell::RefCell::new(None);
}
fn zlog(func: &str, arg: &Value) {
    ZLOG.with(|z| {
        if let Some(log) = z.borrow().as_ref() {
            let mut entries = log.entries.lock().unwrap();
            let ordinal = entries.iter().filter(|e| e.func == func).count() + 1;
            let seq = log.seq.fetch_add(1, Ordering::SeqCst);
            entries.push(Invocation { ev: EV.try_with(|v| *v).unwrap_or(0), seq, func: func.to_string(), arg: arg.clone(), ordinal });
        }
    });
}
pub struct ZstDouble;
pub struct ZstNegate;
#[async_trait]
impl UserFunction for ZstDouble {
    async fn call(&self, params: Value) -> FunctionResult {
        zlog("zdouble", &params);
        match params {
            Value::Int(i) => i.checked_mul(2).map(Value::Int).ok_or_else(|| anyhow::anyhow!("not a small int")),
            _ => Err(anyhow::anyhow!("not a small int")),
        }
    }
    fn name(&self) -> &'static str {
        "zdouble"
    }
}
#[async_trait]
impl UserFunction for ZstNegate {
    async fn call(&self, params: Value) -> FunctionResult {
        zlog("znegate", &params);
        match params {
            Value::Int(i) => i.checked_neg().map(Value::Int).ok_or_else(|| anyhow::anyhow!("not a small int")),
            _ => Err(anyhow::anyhow!("not a small int")),
        }
    }
    fn name(&self) -> &'static str {
        "znegate"
    }
}

/// a user function of the model as a boxed trait object: the scripted ModelFn, or one of the stateless unit structs
pub fn boxed_fn(j: &J, log: Arc<Log>) -> Result<Box<dyn UserFunction + Send + Sync + 'static>, String> {
    match uncps(&j["name"])?.as_str() {
        "zdouble" => {
            ZLOG.with(|z| *z.borrow_mut() = Some(log));
            Ok(Box::new(ZstDouble))
        }
        "znegate" => {
            ZLOG.with(|z| *z.borrow_mut() = Some(log));
            Ok(Box::new(ZstNegate))
        }
        _ => Ok(Box::new(modelfn_from_model(j, log)?)),
    }
}

pub fn leak(s: String) -> &'static str {
    Box::leak(s.into_boxed_str())
}

/// {"name": cps, "cacheable": bool, "suspend": n, "script": [ {"r":"v","v":value} | {"r":"fail","msg":cps} | {"r":"counter"} | {"r":"echo"} | {"r":"tagged"} ]}
pub fn modelfn_from_model(j: &J, log: Arc<Log>) -> Result<ModelFn, String> {
    let name = leak(uncps(&j["name"])?);
    let mut script = Vec::new();
    if let Some(arr) = j["script"].as_array() {
        for r in arr {
            script.push(match r["r"].as_str() {
                Some("v") => FnRes::Val(from_model(&r["v"])?),
                Some("fail") => FnRes::Fail(uncps(&r["msg"])?),
                Some("failtype") => FnRes::FailType,
                Some("double") => FnRes::Double,
                Some("counter") => FnRes::Counter,
                Some("tagged") => FnRes::Tagged,
                Some("echo") => FnRes::Echo,
                other => return Err(format!("bad script entry {other:?}")),
            });
        }
    }
    Ok(ModelFn {
        name,
        cacheable: j["cacheable"].as_bool().unwrap_or(true),
        script,
        suspend: j["suspend"].as_u64().unwrap_or(0) as usize,
        count: AtomicUsize::new(0),
        log,
    })
}
