//! Hand-rolled executor (noop waker, poll-by-poll control, drop = cancel) and `ModelFn`, a
//! `UserFunction` with scripted per-invocation results, k suspensions per call and a shared
//! invocation log.  Everything the properties say about schedules is driven through these.

use crate::model::{from_model, to_model, uncps};
use async_trait::async_trait;
use reval::prelude::*;
use serde_json::{json, Value as J};
use std::future::Future;
use std::panic::{catch_unwind, AssertUnwindSafe};
use std::pin::Pin;
use std::sync::atomic::{AtomicUsize, Ordering};
use std::sync::{Arc, Mutex};
use std::task::{Context, Poll, Waker};

pub fn panic_msg(p: Box<dyn std::any::Any + Send>) -> String {
    if let Some(s) = p.downcast_ref::<&str>() {
        s.to_string()
    } else if let Some(s) = p.downcast_ref::<String>() {
        s.clone()
    } else {
        "<non-string panic>".into()
    }
}

/// poll a future once with a noop waker; a panic inside poll is returned as Err
pub fn poll_once<T>(fut: &mut Pin<Box<dyn Future<Output = T> + '_>>) -> Result<Poll<T>, String> {
    let waker = Waker::noop();
    let mut cx = Context::from_waker(waker);
    catch_unwind(AssertUnwindSafe(|| fut.as_mut().poll(&mut cx))).map_err(panic_msg)
}

/// run a future to completion on the calling thread (bounded number of polls)
/// (no Send bound anywhere in the harness proper: whether the futures are Send is C18's question, asked by the
/// probes crate, and must not decide whether the other checks can be built)
pub fn block_on<T>(fut: impl Future<Output = T>) -> Result<T, String> {
    let mut fut: Pin<Box<dyn Future<Output = T> + '_>> = Box::pin(fut);
    for _ in 0..1_000_000 {
        match poll_once(&mut fut)? {
            Poll::Ready(v) => return Ok(v),
            Poll::Pending => {}
        }
    }
    Err("future still pending after 1e6 polls".into())
}

#[derive(Clone, Debug)]
pub enum FnRes {
    Val(Value),
    /// the per-function invocation ordinal (1-based) as an Int
    Counter,
    /// [argument, ordinal]
    Tagged,
    Echo,
    Fail(String),
    /// fails with an error whose concrete type is reval::Error (InvalidType)
    FailType,
    /// twice the Int argument (the README's example function); fails on anything else
    Double,
}

tokio::task_local! {
    /// the id of the evaluation a user function is called from (set by the recorders with EV.scope)
    pub static EV: usize;
}

#[derive(Clone, Debug)]
pub struct Invocation {
    pub ev: usize,
    pub seq: usize,
    pub func: String,
    pub arg: Value,
    pub ordinal: usize,
}

#[derive(Default)]
pub struct Log {
    pub seq: AtomicUsize,
    pub entries: Mutex<Vec<Invocation>>,
}

impl Log {
    pub fn snapshot(&self) -> Vec<Invocation> {
        self.entries.lock().unwrap().clone()
    }
    pub fn to_model(&self) -> J {
        J::Array(
            self.snapshot()
                .iter()
                .map(|i| json!({"f": crate::model::cps(&i.func), "arg": to_model(&i.arg), "n": i.ordinal}))
                .collect(),
        )
    }
}

pub struct ModelFn {
    pub name: &'static str,
    pub cacheable: bool,
    /// result of the n-th invocation (1-based); the last entry repeats
    pub script: Vec<FnRes>,
    /// how many times each call returns Pending before completing
    pub suspend: usize,
    pub count: AtomicUsize,
    pub log: Arc<Log>,
}

struct YieldN(usize);
impl Future for YieldN {
    type Output = ();
    fn poll(mut self: Pin<&mut Self>, cx: &mut Context<'_>) -> Poll<()> {
        if self.0 == 0 {
            Poll::Ready(())
        } else {
            self.0 -= 1;
            cx.waker().wake_by_ref();
            Poll::Pending
        }
    }
}

#[async_trait]
impl UserFunction for ModelFn {
    async fn call(&self, params: Value) -> FunctionResult {
        // the invocation is logged at entry: this is the linearisation point "Invoke"
        let ordinal = self.count.fetch_add(1, Ordering::SeqCst) + 1;
        let ev = EV.try_with(|v| *v).unwrap_or(0);
        // sequence number and entry are taken under one lock: the log order IS the order of the atomic counter
        {
            let mut entries = self.log.entries.lock().unwrap();
            let seq = self.log.seq.fetch_add(1, Ordering::SeqCst);
            entries.push(Invocation { ev, seq, func: self.name.to_string(), arg: params.clone(), ordinal });
        }
        YieldN(self.suspend).await;
        let res = if self.script.is_empty() { &FnRes::Echo } else { &self.script[(ordinal - 1).min(self.script.len() - 1)] };
        match res {
            FnRes::Val(v) => Ok(v.clone()),
            FnRes::Counter => Ok(Value::Int(ordinal as i128)),
            FnRes::Tagged => Ok(Value::Vec(vec![params, Value::Int(ordinal as i128)])),
            FnRes::Echo => Ok(params),
            FnRes::Fail(m) => Err(anyhow::anyhow!("{}", m)),
            FnRes::FailType => Err(reval::Error::InvalidType.into()),
            FnRes::Double => match params {
                Value::Int(i) => i.checked_mul(2).map(Value::Int).ok_or_else(|| anyhow::anyhow!("not a small int")),
                _ => Err(anyhow::anyhow!("not a small int")),
            },
        }
    }
    fn name(&self) -> &'static str {
        self.name
    }
    fn cacheable(&self) -> bool {
        self.cacheable
    }
}

pub fn leak(s: String) -> &'static str {
    Box::leak(s.into_boxed_str())
}

/// {"name": cps, "cacheable": bool, "suspend": n, "script": [ {"r":"v","v":value} | {"r":"fail","msg":cps} | {"r":"counter"} | {"r":"echo"} | {"r":"tagged"} ]}
pub fn modelfn_from_model(j: &J, log: Arc<Log>) -> Result<ModelFn, String> {
    let name = leak(uncps(&j["name"])?);
    let mut script = Vec::new();
    if let Some(arr) = j["script"].as_array() {
        for r in arr {
            script.push(match r["r"].as_str() {
                Some("v") => FnRes::Val(from_model(&r["v"])?),
                Some("fail") => FnRes::Fail(uncps(&r["msg"])?),
                Some("failtype") => FnRes::FailType,
                Some("double") => FnRes::Double,
                Some("counter") => FnRes::Counter,
                Some("tagged") => FnRes::Tagged,
                Some("echo") => FnRes::Echo,
                other => return Err(format!("bad script entry {other:?}")),
            });
        }
    }
    Ok(ModelFn {
        name,
        cacheable: j["cacheable"].as_bool().unwrap_or(true),
        script,
        suspend: j["suspend"].as_u64().unwrap_or(0) as usize,
        count: AtomicUsize::new(0),
        log,
    })
}
