//! Scenarios: rulesets with scripted user functions, evaluated under a prescribed schedule.
//! Engine `prog` (C05/C10): one program, one evaluation, compare outcome and invocation log.

use crate::exec::*;
use crate::model::*;
use crate::report::Report;
use reval::prelude::*;
use serde_json::{json, Value as J};
use std::collections::BTreeMap;
use std::sync::Arc;

pub struct Built {
    pub ruleset: RuleSet,
    pub log: Arc<Log>,
}

/// env = {"input":value, "syms":[[name,value]...], "funcs":[modelfn...]}, rules = [(name, expr)]
pub fn build_ruleset(env: &J, rules: Vec<(String, Expr)>) -> Result<Built, String> {
    build_ruleset_with(env, rules.into_iter().map(|(name, e)| Rule::new(name, BTreeMap::new(), e)).collect())
}

pub fn build_ruleset_with(env: &J, rules: Vec<Rule>) -> Result<Built, String> {
    let log = Arc::new(Log::default());
    let mut b = ruleset();
    for rule in rules {
        b = b.with_rule(rule).map_err(|e| format!("with_rule: {e}"))?;
    }
    if let Some(fs) = env["funcs"].as_array() {
        // the first function through with_function, the others boxed through one with_functions call: both entry
        // points must register the function as it declares itself (name, cacheable)
        let mut boxed: Vec<Box<dyn UserFunction + Send + Sync + 'static>> = Vec::new();
        for (i, f) in fs.iter().enumerate() {
            if i == 0 {
                b = b.with_function(modelfn_from_model(f, log.clone())?).map_err(|e| format!("with_function: {e}"))?;
            } else {
                boxed.push(boxed_fn(f, log.clone())?);
            }
        }
        if !boxed.is_empty() {
            b = b.with_functions(boxed).map_err(|e| format!("with_functions: {e}"))?;
        }
    }
    if let Some(ss) = env["syms"].as_array() {
        // a symbol resolves to the value most recently registered under its name, and registering a table keeps what was
        // there before (C10, C15).  Every symbol is registered in one of three ways, by position: (0) stale by with_symbol, real in the with_symbols table; (1) stale in the table, real by a
        // later with_symbol; (2) real by with_symbol BEFORE with_symbols and absent from the table (merging must keep it)
        let mut table: Vec<(String, Value)> = Vec::new();
        let mut later: Vec<(String, Value)> = Vec::new();
        for (i, s) in ss.iter().enumerate() {
            let name = uncps(&s[0])?;
            match (i + ss.len()) % 3 {
                0 => {
                    b = b.with_symbol(name.clone(), Value::String("stale".into()));
                    table.push((name, from_model(&s[1])?));
                }
                1 => {
                    table.push((name.clone(), Value::String("stale".into())));
                    later.push((name, from_model(&s[1])?));
                }
                _ => b = b.with_symbol(name, from_model(&s[1])?),
            }
        }
        // both relative sizes: for an even number of symbols the table is padded with names nobody refers to until it is
        // strictly larger than what the builder already holds (a merge that iterates over the smaller side must still let
        // the table win), for an odd number it stays the smaller side
        if ss.len() % 2 == 0 && !table.is_empty() {
            for k in 0..ss.len() + 2 {
                table.push((format!("\u{2}pad{k}"), Value::String("pad".into())));
            }
        }
        b = b.with_symbols(Symbols::from(table)).map_err(|e| format!("with_symbols: {e}"))?;
        for (n, v) in later {
            b = b.with_symbol(n, v);
        }
    }
    Ok(Built { ruleset: b.build(), log })
}

pub fn calls_match(exp: &J, log: &Log) -> Result<(), String> {
    let got = log.snapshot();
    let exp = exp.as_array().ok_or("TOOL: calls not an array")?;
    for (i, (e, g)) in exp.iter().zip(got.iter()).enumerate() {
        let f = uncps(&e["f"]).map_err(|e| format!("TOOL: {e}"))?;
        let arg = from_model(&e["arg"]).map_err(|e| format!("TOOL: {e}"))?;
        let n = e["n"].as_u64().unwrap_or(0) as usize;
        if f != g.func || !value_matches(&arg, &g.arg) || n != g.ordinal {
            return Err(format!("invocation {} differs: expected {}({:?})#{}, got {}({:?})#{}", i + 1, f, arg, n, g.func, g.arg, g.ordinal));
        }
    }
    if exp.len() != got.len() {
        return Err(format!("{} invocations expected, {} observed (first extra/missing at {})", exp.len(), got.len(), exp.len().min(got.len()) + 1));
    }
    Ok(())
}

pub fn kinds_in(e: &J, out: &mut Vec<String>) {
    if let Some(k) = e["k"].as_str() {
        out.push(k.to_string());
    }
    if let Some(a) = e["a"].as_array() {
        for c in a {
            kinds_in(c, out);
        }
    }
    if let Some(kv) = e["kv"].as_array() {
        for c in kv {
            kinds_in(&c[1], out);
        }
    }
}

pub fn replay_prog(case: &J, rep: &mut Report) {
    let e = match expr_from_model(&case["prog"]) {
        Ok(e) => e,
        Err(e) => return rep.tool_error(format!("prog: {e}")),
    };
    let input = match from_model(&case["env"]["input"]) {
        Ok(v) => v,
        Err(e) => return rep.tool_error(format!("input: {e}")),
    };
    // One Rule value per distinct program, CLONED into the ruleset of every case that uses it (different inputs,
    // symbol tables, functions): a rule is data, whatever an earlier evaluation of a clone did must be invisible.
    thread_local! {
        static RULES: std::cell::RefCell<std::collections::HashMap<String, Rule>> = std::cell::RefCell::new(std::collections::HashMap::new());
    }
    let pkey = case["prog"].to_string();
    let shared: Rule = RULES.with(|m| {
        let mut m = m.borrow_mut();
        if m.len() > 20_000 {
            m.clear();
        }
        m.entry(pkey).or_insert_with(|| Rule::new("r", BTreeMap::new(), e.clone())).clone()
    });
    let built = match build_ruleset_with(&case["env"], vec![shared]) {
        Ok(b) => b,
        Err(e) => return rep.tool_error(e),
    };
    let res = block_on(built.ruleset.evaluate_value(&input));
    rep.evaluations += 1;
    let mut kinds = Vec::new();
    kinds_in(&case["prog"], &mut kinds);
    let key = format!("prog:{}:{}", kinds.join("."), crate::ops::class_of(&case["x"]));
    let obs = match res {
        Err(p) => Obs::Panic(p),
        Ok(Err(err)) => classify(&err),
        Ok(Ok(mut outs)) => {
            if outs.len() != 1 {
                rep.mismatch(&key, json!({"engine": "prog", "case": case, "why": format!("{} outcomes for one rule", outs.len())}));
                return;
            }
            match outs.remove(0).value {
                Ok(v) => Obs::Ok(v),
                Err(e) => classify(&e),
            }
        }
    };
    let mut verdict = matches(&case["x"], &obs).and_then(|_| calls_match(&case["calls"], &built.log));
    // a program that invokes no user function: the SAME ruleset evaluated once more gives the same outcome
    if verdict.is_ok() && case["calls"].as_array().map(|a| a.is_empty()).unwrap_or(false) {
        let again = match block_on(built.ruleset.evaluate_value(&input)) {
            Err(p) => Obs::Panic(p),
            Ok(Err(err)) => classify(&err),
            Ok(Ok(mut outs)) if outs.len() == 1 => match outs.remove(0).value { Ok(v) => Obs::Ok(v), Err(e) => classify(&e) },
            Ok(Ok(outs)) => Obs::Panic(format!("{} outcomes for one rule", outs.len())),
        };
        rep.evaluations += 1;
        verdict = matches(&case["x"], &again).map_err(|w| format!("second evaluation of the same ruleset: {w}")).and_then(|_| calls_match(&case["calls"], &built.log));
    }
    match verdict {
        Ok(()) => rep.case_ok(true, || json!({"program": e.to_string(), "outcome": obs_to_model(&obs), "invocations": built.log.to_model()})),
        Err(why) if why.starts_with("TOOL:") => rep.tool_error(why),
        Err(why) => rep.mismatch(&key, json!({"engine": "prog", "case": case, "expr": e.to_string(), "expected": case["x"], "expected_calls": case["calls"],
            "observed": obs_to_model(&obs), "observed_calls": built.log.to_model(), "why": why})),
    }
}

// ------------------------------------------------------------------------------------------
// Engine `scenario` (C09, C11, C12, C15): builder operations, evaluations under a schedule.

use std::future::Future;
use std::pin::Pin;
use std::task::Poll;

fn rule_from_model(j: &J) -> Result<Rule, String> {
    Ok(Rule::new(uncps(&j["name"])?, BTreeMap::new(), expr_from_model(&j["expr"])?))
}

enum Op {
    Rule(Rule),
    Rules(Vec<Rule>),
    Func(J),
    Funcs(Vec<J>),
    Symbol(String, Value),
    Symbols(Vec<(String, Value)>),
}

fn op_from_model(j: &J) -> Result<Op, String> {
    Ok(match j["op"].as_str().ok_or("op")? {
        "with_rule" => Op::Rule(rule_from_model(&j["rule"])?),
        "with_rules" => Op::Rules(j["rules"].as_array().ok_or("rules")?.iter().map(rule_from_model).collect::<Result<_, _>>()?),
        "with_function" => Op::Func(j["f"].clone()),
        "with_functions" => Op::Funcs(j["fs"].as_array().ok_or("fs")?.clone()),
        "with_symbol" => Op::Symbol(uncps(&j["n"])?, from_model(&j["v"])?),
        "with_symbols" => Op::Symbols(j["tab"].as_array().ok_or("tab")?.iter().map(|kv| Ok((uncps(&kv[0])?, from_model(&kv[1])?))).collect::<Result<_, String>>()?),
        o => return Err(format!("unknown builder op {o}")),
    })
}

fn apply(b: Builder, op: &Op, log: &Arc<Log>) -> Result<reval::Result<Builder>, String> {
    Ok(match op {
        Op::Rule(r) => b.with_rule(r.clone()),
        Op::Rules(rs) => b.with_rules(rs.clone()),
        Op::Func(f) => b.with_function(modelfn_from_model(f, log.clone())?),
        Op::Funcs(fs) => {
            let mut v: Vec<Box<dyn UserFunction + Send + Sync + 'static>> = Vec::new();
            for f in fs {
                v.push(Box::new(modelfn_from_model(f, log.clone())?));
            }
            b.with_functions(v)
        }
        Op::Symbol(n, v) => Ok(b.with_symbol(n.clone(), v.clone())),
        Op::Symbols(tab) => b.with_symbols(Symbols::from(tab.clone())),
    })
}

/// run the builder part; returns the ruleset, the rules accepted (in order) and the log
fn run_builder(case: &J, log: &Arc<Log>) -> Result<Result<(RuleSet, Vec<Rule>), String>, String> {
    // shorthand: env + rules
    if case.get("builder").is_none() {
        // one Rule value per distinct (name, expression), cloned into every ruleset that uses it
        thread_local! {
            static SHARED: std::cell::RefCell<std::collections::HashMap<String, Rule>> = std::cell::RefCell::new(std::collections::HashMap::new());
        }
        let mut rules = Vec::new();
        for r in case["rules"].as_array().ok_or("TOOL: rules")? {
            let key = r.to_string();
            let cached = SHARED.with(|m| m.borrow().get(&key).cloned());
            let rule = match cached {
                Some(rule) => rule,
                None => {
                    let rule = rule_from_model(r)?;
                    SHARED.with(|m| {
                        let mut m = m.borrow_mut();
                        if m.len() > 20_000 {
                            m.clear();
                        }
                        m.insert(key, rule.clone());
                    });
                    rule
                }
            };
            rules.push(rule);
        }
        let mut b = ruleset();
        for r in &rules {
            b = match b.with_rule(r.clone()) {
                Ok(b) => b,
                Err(e) => return Ok(Err(format!("with_rule refused {}: {e}", r.name()))),
            };
        }
        if let Some(fs) = case["env"]["funcs"].as_array() {
            let mut boxed: Vec<Box<dyn UserFunction + Send + Sync + 'static>> = Vec::new();
            for (i, f) in fs.iter().enumerate() {
                if i == 0 {
                    b = match b.with_function(modelfn_from_model(f, log.clone())?) {
                        Ok(b) => b,
                        Err(e) => return Ok(Err(format!("with_function refused: {e}"))),
                    };
                } else {
                    boxed.push(boxed_fn(f, log.clone())?);
                }
            }
            if !boxed.is_empty() {
                b = match b.with_functions(boxed) {
                    Ok(b) => b,
                    Err(e) => return Ok(Err(format!("with_functions refused: {e}"))),
                };
            }
        }
        if let Some(ss) = case["env"]["syms"].as_array() {
            for s in ss {
                b = b.with_symbol(uncps(&s[0])?, from_model(&s[1])?);
            }
        }
        return Ok(Ok((b.build(), rules)));
    }
    let ops_j = case["builder"].as_array().ok_or("TOOL: builder")?;
    let mut ops = Vec::new();
    for o in ops_j {
        ops.push(op_from_model(o)?);
    }
    let mut accepted: Vec<usize> = Vec::new();
    let mut b = ruleset();
    for (i, op) in ops.iter().enumerate() {
        let exp = &ops_j[i]["x"];
        let res = std::panic::catch_unwind(std::panic::AssertUnwindSafe(|| apply(b, op, log)));
        let res = match res {
            Err(p) => return Ok(Err(format!("builder op {} panicked: {}", i + 1, panic_msg(p)))),
            Ok(r) => r?,
        };
        let obs = match &res {
            Ok(_) => Obs::Ok(Value::None),
            Err(e) => classify(e),
        };
        let expj = if exp["ok"].as_bool() == Some(true) { json!({"ok": true, "v": {"t": "None"}}) } else { exp.clone() };
        if let Err(why) = matches(&expj, &obs) {
            return Ok(Err(format!("builder op {} ({}) [{}:{}]: {}", i + 1, ops_j[i]["op"], ops_j[i]["op"].as_str().unwrap_or("?"), crate::ops::class_of(exp), why)));
        }
        b = match res {
            Ok(nb) => {
                accepted.push(i);
                nb
            }
            Err(_) => {
                // the refused call consumed the builder: rebuild the accepted prefix
                let mut nb = ruleset();
                for &k in &accepted {
                    nb = apply(nb, &ops[k], log)?.map_err(|e| format!("TOOL: replaying accepted op {k} failed: {e}"))?;
                }
                nb
            }
        };
    }
    let mut rules = Vec::new();
    for &k in &accepted {
        match &ops[k] {
            Op::Rule(r) => rules.push(r.clone()),
            Op::Rules(rs) => rules.extend(rs.iter().cloned()),
            _ => {}
        }
    }
    Ok(Ok((b.build(), rules)))
}

fn outcomes_match(exp: &J, got: &[reval::ruleset::Outcome], rules: &[Rule]) -> Result<(), String> {
    let exp = exp.as_array().ok_or("TOOL: expected outcomes not an array")?;
    if exp.len() != got.len() {
        return Err(format!("{} outcomes expected, {} returned", exp.len(), got.len()));
    }
    for (i, (e, g)) in exp.iter().zip(got.iter()).enumerate() {
        let name = uncps(&e["rule"]).map_err(|e| format!("TOOL: {e}"))?;
        if g.rule.name() != name {
            return Err(format!("outcome {} carries rule {:?}, expected {:?}", i + 1, g.rule.name(), name));
        }
        if let Some(r) = rules.get(i) {
            // compared through the model projection (PartialEq would reject a rule containing a NaN literal)
            if g.rule.name() != r.name() || expr_to_model(g.rule.expr()) != expr_to_model(r.expr()) || g.rule.iter_metadata().count() != r.iter_metadata().count() {
                return Err(format!("outcome {} carries a rule different from the {}-th rule added", i + 1, i + 1));
            }
        }
        let obs = match &g.value {
            Ok(v) => Obs::Ok(v.clone()),
            Err(e) => classify(e),
        };
        matches(&e["o"], &obs).map_err(|w| format!("outcome {} (rule {}): {}", i + 1, name, w))?;
    }
    Ok(())
}

pub fn replay_scenario(case: &J, rep: &mut Report) {
    let key = format!("scenario:{}", case["key"].as_str().unwrap_or("?"));
    let fail = |rep: &mut Report, why: String| {
        if why.starts_with("TOOL:") {
            rep.tool_error(why)
        } else {
            // builder mismatches are keyed by operation and prescribed class
            let k = match (why.find('['), why.find(']')) {
                (Some(a), Some(b)) if why.starts_with("builder op") && a < b => format!("{}:{}", key, &why[a + 1..b]),
                _ => key.clone(),
            };
            rep.mismatch(&k, json!({"engine": "scenario", "case": case, "why": why}))
        }
    };
    let log = Arc::new(Log::default());
    let (rs, rules) = match run_builder(case, &log) {
        Err(e) => return rep.tool_error(format!("scenario: {e}")),
        Ok(Err(why)) => return fail(rep, why),
        Ok(Ok(x)) => x,
    };
    let mut inputs = Vec::new();
    for i in case["inputs"].as_array().map(|a| a.as_slice()).unwrap_or(&[]) {
        match from_model(i) {
            Ok(v) => inputs.push(v),
            Err(e) => return rep.tool_error(format!("input: {e}")),
        }
    }
    let before_inputs = inputs.clone();
    type Fut<'a> = Pin<Box<dyn Future<Output = reval::Result<Vec<reval::ruleset::Outcome<'a>>>> + 'a>>;
    let n = inputs.len();
    let mut futs: Vec<Option<Fut>> = (0..n).map(|_| None).collect();
    let mut done: Vec<bool> = vec![false; n];
    let exp_x = &case["x"];
    let sched = case["schedule"].as_array().cloned().unwrap_or_default();
    for (si, a) in sched.iter().enumerate() {
        let e = a["e"].as_u64().unwrap_or(1) as usize - 1;
        if e >= n {
            return rep.tool_error(format!("schedule names evaluation {} of {}", e + 1, n));
        }
        let act = a["a"].as_str().unwrap_or("?");
        match act {
            "start" => futs[e] = Some(Box::pin(rs.evaluate_value(&inputs[e]))),
            "drop" => futs[e] = None,
            "poll" | "run" => {
                if futs[e].is_none() && act == "run" {
                    futs[e] = Some(Box::pin(rs.evaluate_value(&inputs[e])));
                }
                let mut polls = 0;
                loop {
                    let f = match futs[e].as_mut() {
                        Some(f) => f,
                        None => return rep.tool_error(format!("schedule step {} polls evaluation {} which is not live", si + 1, e + 1)),
                    };
                    rep.evaluations += 1;
                    polls += 1;
                    let r = match poll_once(f) {
                        Err(p) => return fail(rep, format!("panic while polling evaluation {}: {p}", e + 1)),
                        Ok(r) => r,
                    };
                    match r {
                        Poll::Pending => {
                            if act == "poll" {
                                if a["ready"].as_bool() == Some(true) {
                                    return fail(rep, format!("step {}: evaluation {} still pending, spec says ready", si + 1, e + 1));
                                }
                                break;
                            }
                            if polls > 100000 {
                                return fail(rep, format!("evaluation {} does not complete", e + 1));
                            }
                        }
                        Poll::Ready(res) => {
                            if act == "poll" && a["ready"].as_bool() == Some(false) {
                                return fail(rep, format!("step {}: evaluation {} completed, spec says still pending", si + 1, e + 1));
                            }
                            done[e] = true;
                            let verdict = match &res {
                                Err(err) => Err(format!("evaluate_value failed as a whole: {err}")),
                                Ok(outs) => outcomes_match(&exp_x[e], outs, &rules),
                            };
                            drop(res);
                            futs[e] = None;
                            if let Err(why) = verdict {
                                return fail(rep, format!("evaluation {}: {}", e + 1, why));
                            }
                            break;
                        }
                    }
                }
                if let Some(nc) = a.get("ncalls").and_then(|x| x.as_u64()) {
                    let got = log.entries.lock().unwrap().len();
                    if got as u64 != nc {
                        return fail(rep, format!("after step {} ({} e{}) the invocation log has {} entries, spec says {}", si + 1, act, e + 1, got, nc));
                    }
                }
            }
            other => return rep.tool_error(format!("unknown schedule action {other}")),
        }
    }
    drop(futs);
    if let Err(why) = calls_match(&case["calls"], &log) {
        return fail(rep, why);
    }
    // side-effect freedom: inputs unchanged (PartialEq on clones; NaN-free pools)
    for (a, b) in before_inputs.iter().zip(inputs.iter()) {
        if !value_matches(a, b) {
            return fail(rep, "an input value changed during evaluation".into());
        }
    }
    for (e, d) in done.iter().enumerate() {
        if !*d && !exp_x[e].is_null() && sched.iter().any(|a| a["a"] == "run" && a["e"].as_u64() == Some(e as u64 + 1)) {
            return fail(rep, format!("evaluation {} never completed", e + 1));
        }
    }
    let nontrivial = case["calls"].as_array().map(|c| !c.is_empty()).unwrap_or(false) || rules.len() > 1 || case.get("builder").is_some();
    rep.case_ok(nontrivial, || json!({"rules": rules.iter().map(|r| format!("{}: {}", r.name(), r.expr())).collect::<Vec<_>>(), "schedule": case["schedule"], "invocations": log.to_model()}));
}


// ------------------------------------------------------------------------------------------
// Engine `session` (end to end): rule texts -> Rule::parse -> builder -> evaluate(&serializable input)

pub fn replay_session(case: &J, rep: &mut Report) {
    use crate::ser::term_from_model;
    let x = &case["x"];
    let kind = x["k"].as_str().unwrap_or("?");
    let key = format!("session:{kind}");
    let fail = |rep: &mut Report, why: String| {
        if why.starts_with("TOOL:") { rep.tool_error(why) } else { rep.mismatch(&key, json!({"engine": "session", "case": case, "why": why})) }
    };
    let texts: Vec<String> = match case["texts"].as_array().map(|a| a.iter().map(uncps).collect::<Result<Vec<_>, _>>()) {
        Some(Ok(t)) => t,
        _ => return rep.tool_error("session: texts".into()),
    };
    rep.evaluations += 1;
    // 1. parse every text as a rule
    let mut rules = Vec::new();
    for (i, t) in texts.iter().enumerate() {
        let r = std::panic::catch_unwind(|| Rule::parse(t));
        match r {
            Err(p) => return fail(rep, format!("Rule::parse panicked on text {}: {}", i + 1, panic_msg(p))),
            Ok(Err(e)) => {
                let got = if matches!(e, reval::parse::Error::MissingRuleName) { "missing" } else { "parse" };
                if kind == "parse" && x["at"].as_u64() == Some(i as u64 + 1) && x["why"].as_str() == Some(got) {
                    return rep.case_ok(true, || json!({"texts": texts, "result": format!("text {} rejected: {}", i + 1, got)}));
                }
                return fail(rep, format!("text {} rejected ({got}: {e}), the specification says {}", i + 1, x));
            }
            Ok(Ok(rule)) => rules.push(rule),
        }
    }
    if kind == "parse" {
        return fail(rep, format!("every text parsed, the specification rejects text {}", x["at"]));
    }
    // 2. builder
    let log = Arc::new(Log::default());
    let mut b = match ruleset().with_rules(rules.clone()) {
        Ok(b) => b,
        Err(e) => {
            let obs = classify(&e);
            return match (&obs, kind) {
                (Obs::Err { variant, name, .. }, "dup") if variant == "DuplicateRuleName" && name.as_deref().map(cps) == Some(x["n"].clone()) => {
                    rep.case_ok(true, || json!({"texts": texts, "result": "duplicate rule name refused"}))
                }
                _ => fail(rep, format!("with_rules failed with {:?}, the specification says {}", obs_to_model(&obs), x)),
            };
        }
    };
    if kind == "dup" {
        return fail(rep, "with_rules accepted rules with a duplicate name".into());
    }
    for f in case["funcs"].as_array().map(|a| a.as_slice()).unwrap_or(&[]) {
        let mf = match modelfn_from_model(f, log.clone()) {
            Ok(m) => m,
            Err(e) => return rep.tool_error(e),
        };
        b = match b.with_function(mf) {
            Ok(b) => b,
            Err(e) => return fail(rep, format!("with_function refused: {e}")),
        };
    }
    let mut tab = Vec::new();
    for sv in case["syms"].as_array().map(|a| a.as_slice()).unwrap_or(&[]) {
        match (uncps(&sv[0]), from_model(&sv[1])) {
            (Ok(n), Ok(v)) => tab.push((n, v)),
            _ => return rep.tool_error("session: syms".into()),
        }
    }
    b = match b.with_symbols(Symbols::from(tab)) {
        Ok(b) => b,
        Err(e) => return fail(rep, format!("with_symbols refused: {e}")),
    };
    let rs = b.build();
    // 3. evaluate against the serializable input
    let term = match term_from_model(&case["term"]) {
        Ok(t) => t,
        Err(e) => return rep.tool_error(format!("term: {e}")),
    };
    // the input object is re-used in place: a decoy first, then the real data in the same variable
    let mut slot = crate::ser::Term::Str("decoy".to_string());
    let _ = block_on(rs.evaluate(&slot));
    slot = term;
    let res = block_on(rs.evaluate(&slot));
    let verdict = match (res, kind) {
        (Err(p), _) => Err(format!("RuleSet::evaluate panicked: {p}")),
        (Ok(Err(e)), "ser") => match classify(&e) {
            Obs::Err { variant, .. } if variant == "ValueSerializationError" => Ok(()),
            o => Err(format!("evaluate failed with {:?}, expected a serialization error", obs_to_model(&o))),
        },
        (Ok(Err(e)), _) => Err(format!("evaluate failed as a whole: {e}")),
        (Ok(Ok(_)), "ser") => Err("evaluate succeeded although the input cannot be serialized".into()),
        (Ok(Ok(outs)), _) => outcomes_match(&x["outcomes"], &outs, &rules).and_then(|_| calls_match(&x["calls"], &log)),
    };
    match verdict {
        Ok(()) => rep.case_ok(true, || json!({"texts": texts, "result": kind})),
        Err(why) => fail(rep, why),
    }
}
