//! Scenarios: rulesets with scripted user functions, evaluated under a prescribed schedule.
//! Engine `prog` (C05/C10): one program, one evaluation, compare outcome and invocation log.

use crate::exec::*;
use crate::model::*;
use crate::report::Report;
use reval::prelude::*;
use serde_json::{json, Value as J};
use std::collections::BTreeMap;
use std::sync::Arc;

pub struct Built {
    pub ruleset: RuleSet,
    pub log: Arc<Log>,
}

/// env = {"input":value, "syms":[[name,value]...], "funcs":[modelfn...]}, rules = [(name, expr)]
pub fn build_ruleset(env: &J, rules: Vec<(String, Expr)>) -> Result<Built, String> {
    let log = Arc::new(Log::default());
    let mut b = ruleset();
    for (name, e) in rules {
        b = b.with_rule(Rule::new(name, BTreeMap::new(), e)).map_err(|e| format!("with_rule: {e}"))?;
    }
    if let Some(fs) = env["funcs"].as_array() {
        for f in fs {
            b = b.with_function(modelfn_from_model(f, log.clone())?).map_err(|e| format!("with_function: {e}"))?;
        }
    }
    if let Some(ss) = env["syms"].as_array() {
        for s in ss {
            b = b.with_symbol(uncps(&s[0])?, from_model(&s[1])?);
        }
    }
    Ok(Built { ruleset: b.build(), log })
}

pub fn calls_match(exp: &J, log: &Log) -> Result<(), String> {
    let got = log.snapshot();
    let exp = exp.as_array().ok_or("TOOL: calls not an array")?;
    for (i, (e, g)) in exp.iter().zip(got.iter()).enumerate() {
        let f = uncps(&e["f"]).map_err(|e| format!("TOOL: {e}"))?;
        let arg = from_model(&e["arg"]).map_err(|e| format!("TOOL: {e}"))?;
        let n = e["n"].as_u64().unwrap_or(0) as usize;
        if f != g.func || !value_matches(&arg, &g.arg) || n != g.ordinal {
            return Err(format!("invocation {} differs: expected {}({:?})#{}, got {}({:?})#{}", i + 1, f, arg, n, g.func, g.arg, g.ordinal));
        }
    }
    if exp.len() != got.len() {
        return Err(format!("{} invocations expected, {} observed (first extra/missing at {})", exp.len(), got.len(), exp.len().min(got.len()) + 1));
    }
    Ok(())
}

pub fn kinds_in(e: &J, out: &mut Vec<String>) {
    if let Some(k) = e["k"].as_str() {
        out.push(k.to_string());
    }
    if let Some(a) = e["a"].as_array() {
        for c in a {
            kinds_in(c, out);
        }
    }
    if let Some(kv) = e["kv"].as_array() {
        for c in kv {
            kinds_in(&c[1], out);
        }
    }
}

pub fn replay_prog(case: &J, rep: &mut Report) {
    let e = match expr_from_model(&case["prog"]) {
        Ok(e) => e,
        Err(e) => return rep.tool_error(format!("prog: {e}")),
    };
    let input = match from_model(&case["env"]["input"]) {
        Ok(v) => v,
        Err(e) => return rep.tool_error(format!("input: {e}")),
    };
    let built = match build_ruleset(&case["env"], vec![("r".to_string(), e.clone())]) {
        Ok(b) => b,
        Err(e) => return rep.tool_error(e),
    };
    let res = block_on(built.ruleset.evaluate_value(&input));
    rep.evaluations += 1;
    let mut kinds = Vec::new();
    kinds_in(&case["prog"], &mut kinds);
    let key = format!("prog:{}:{}", kinds.join("."), crate::ops::class_of(&case["x"]));
    let obs = match res {
        Err(p) => Obs::Panic(p),
        Ok(Err(err)) => classify(&err),
        Ok(Ok(mut outs)) => {
            if outs.len() != 1 {
                rep.mismatch(&key, json!({"engine": "prog", "case": case, "why": format!("{} outcomes for one rule", outs.len())}));
                return;
            }
            match outs.remove(0).value {
                Ok(v) => Obs::Ok(v),
                Err(e) => classify(&e),
            }
        }
    };
    let verdict = matches(&case["x"], &obs).and_then(|_| calls_match(&case["calls"], &built.log));
    match verdict {
        Ok(()) => rep.case_ok(true, || json!({"program": e.to_string(), "outcome": obs_to_model(&obs), "invocations": built.log.to_model()})),
        Err(why) if why.starts_with("TOOL:") => rep.tool_error(why),
        Err(why) => rep.mismatch(&key, json!({"engine": "prog", "case": case, "expr": e.to_string(), "expected": case["x"], "expected_calls": case["calls"],
            "observed": obs_to_model(&obs), "observed_calls": built.log.to_model(), "why": why})),
    }
}
