//! (V) recorder for the parser: seeded random texts, what Expr::parse and Rule::parse did with them.
//! Texts are renderings of random trees of the parser's image, then de-parenthesised, re-laid-out,
//! re-spelled and mutated at random, so that accepted and rejected texts both occur.

use crate::exec::panic_msg;
use crate::gen::{Gen, Profile, Ty};
use crate::model::*;
use rand::Rng;
use reval::expr::Expr;
use reval::prelude::Rule;
use reval::value::Value;
use serde_json::{json, Value as J};
use std::panic::{catch_unwind, AssertUnwindSafe};

/// restrict a random tree to the parser's image (no DateTime/Duration/list/map VALUES, no NaN, identifier-shaped names)
fn to_image(e: Expr, g: &mut Gen) -> Expr {
    use Expr::*;
    let f = |x: Box<Expr>, g: &mut Gen| Box::new(to_image(*x, g));
    match e {
        Value(v) => Value(match v {
            reval::value::Value::DateTime(_) | reval::value::Value::Duration(_) | reval::value::Value::Vec(_) | reval::value::Value::Map(_) => reval::value::Value::Int(g.int()),
            reval::value::Value::Float(x) if x.is_nan() => reval::value::Value::Float(1.5),
            reval::value::Value::Decimal(d) if d.scale() > 20 => reval::value::Value::Decimal(d.round_dp(5)),
            v => v,
        }),
        Reference(n) => Reference(n),
        Symbol(n) => Symbol(n),
        Function(n, a) => Function(n, f(a, g)),
        Index(a, i) => Index(f(a, g), i),
        If(a, b, c) => If(f(a, g), f(b, g), f(c, g)),
        Map(m) => Map(m.into_iter().map(|(k, v)| (k, to_image(v, g))).collect()),
        Vec(v) => Vec(v.into_iter().map(|x| to_image(x, g)).collect()),
        Not(a) => Not(f(a, g)), Neg(a) => Neg(f(a, g)), Some(a) => Some(f(a, g)), None(a) => None(f(a, g)),
        Int(a) => Int(f(a, g)), Float(a) => Float(f(a, g)), Dec(a) => Dec(f(a, g)), DateTime(a) => DateTime(f(a, g)), Duration(a) => Duration(f(a, g)),
        Mult(a, b) => Mult(f(a, g), f(b, g)), Div(a, b) => Div(f(a, g), f(b, g)), Rem(a, b) => Rem(f(a, g), f(b, g)),
        Add(a, b) => Add(f(a, g), f(b, g)), Sub(a, b) => Sub(f(a, g), f(b, g)),
        Equals(a, b) => Equals(f(a, g), f(b, g)), NotEquals(a, b) => NotEquals(f(a, g), f(b, g)),
        GreaterThan(a, b) => GreaterThan(f(a, g), f(b, g)), GreaterThanEquals(a, b) => GreaterThanEquals(f(a, g), f(b, g)),
        LessThan(a, b) => LessThan(f(a, g), f(b, g)), LessThanEquals(a, b) => LessThanEquals(f(a, g), f(b, g)),
        And(a, b) => And(f(a, g), f(b, g)), Or(a, b) => Or(f(a, g), f(b, g)),
        BitAnd(a, b) => BitAnd(f(a, g), f(b, g)), BitOr(a, b) => BitOr(f(a, g), f(b, g)), BitXor(a, b) => BitXor(f(a, g), f(b, g)),
        Contains(a, b) => Contains(f(a, g), f(b, g)),
        UpperCase(a) => UpperCase(f(a, g)), LowerCase(a) => LowerCase(f(a, g)), Trim(a) => Trim(f(a, g)),
        Floor(a) => Floor(f(a, g)), Round(a) => Round(f(a, g)), Fract(a) => Fract(f(a, g)),
        Year(a) => Year(f(a, g)), Month(a) => Month(f(a, g)), Week(a) => Week(f(a, g)), Day(a) => Day(f(a, g)),
        Hour(a) => Hour(f(a, g)), Minute(a) => Minute(f(a, g)), Second(a) => Second(f(a, g)),
    }
}

const SEPS: &[&str] = &[" ", "  ", "\n", "\t", "\r\n", " // c\n", "\u{a0}", " //\n  "];
const SPELL: &[(&str, &str)] = &[(" == ", " = "), ("some(", "is_some("), ("none(", "is_none("), ("datetime(", "date_time("), ("uppercase(", "to_upper("), ("lowercase(", "to_lower(")];
const JUNK: &[&str] = &["(", ")", "+", "-", ".", "\"", "\\", "i", "9", "e", "@", ";", ":", "[", "}", ",", " ", "\n", "é", "&", "in", "if", "0x", "//", "!", "_", "f1e", "d.", "\\u{"];
const HEAD: &[&str] = &["// rule name\n", "  // described \n", "//\n", "@name: \"n\";\n", "@description: \"d\";", "@prio: i3; ", "@tags: [i1, {a: \"x\"}];\n", "@bad: a + i1;\n", "@name: i5;", "\n", "// more text\r\n"];

pub fn random_text(g: &mut Gen) -> String {
    let ty = g.pick_ty();
    let depth = g.rng.gen_range(1..6);
    let tree = g.expr(ty, depth);
    let e = to_image(tree, g);
    let mut s = e.to_string();
    // remove some parentheses pairs' characters (independently: may unbalance, which is fine)
    if g.rng.gen_bool(0.7) {
        let p = g.rng.gen_range(0.1..0.9);
        s = s.chars().filter(|c| !((*c == '(' || *c == ')') && g.rng.gen_bool(p))).collect();
    }
    if g.rng.gen_bool(0.5) {
        for (a, b) in SPELL {
            if g.rng.gen_bool(0.5) {
                s = s.replace(a, b);
            }
        }
    }
    if g.rng.gen_bool(0.5) {
        let mut out = String::new();
        for c in s.chars() {
            if c == ' ' && g.rng.gen_bool(0.5) {
                out.push_str(SEPS[g.rng.gen_range(0..SEPS.len())]);
            } else {
                out.push(c);
            }
        }
        s = out;
    }
    // mutations
    let muts = if g.rng.gen_bool(0.5) { 0 } else { g.rng.gen_range(1..4) };
    for _ in 0..muts {
        let chars: Vec<char> = s.chars().collect();
        if chars.is_empty() {
            break;
        }
        let p = g.rng.gen_range(0..chars.len());
        let mut out: String = chars[..p].iter().collect();
        match g.rng.gen_range(0..3) {
            0 => {}                                                  // delete
            1 => { out.push(chars[p]); out.push(chars[p]); }        // duplicate
            _ => out.push_str(JUNK[g.rng.gen_range(0..JUNK.len())]), // replace
        }
        out.extend(chars[p + 1..].iter());
        s = out;
    }
    // rule header
    if g.rng.gen_bool(0.6) {
        let n = g.rng.gen_range(1..4);
        let mut head = String::new();
        for _ in 0..n {
            head.push_str(HEAD[g.rng.gen_range(0..HEAD.len())]);
        }
        s = head + &s;
        if g.rng.gen_bool(0.3) {
            s.push_str("\n// trailing comment");
        }
    }
    s
}

fn rule_model(r: &Result<Result<Rule, reval::parse::Error>, String>) -> J {
    match r {
        Err(p) => json!({"k": "panic", "msg": p}),
        Ok(Err(reval::parse::Error::MissingRuleName)) => json!({"k": "missing"}),
        Ok(Err(_)) => json!({"k": "parse"}),
        Ok(Ok(rule)) => json!({"k": "ok", "name": cps(rule.name()),
            "meta": rule.iter_metadata().map(|(k, v)| json!([cps(k), to_model(v)])).collect::<Vec<_>>(),
            "expr": expr_to_model(rule.expr())}),
    }
}

pub fn record_texts(seed: u64, n: usize) -> Vec<J> {
    let mut g = Gen::new(seed, Profile::Types);
    let mut recs = Vec::new();
    for _ in 0..n {
        let text = random_text(&mut g);
        let e = catch_unwind(AssertUnwindSafe(|| Expr::parse(&text))).map_err(panic_msg);
        let r = catch_unwind(AssertUnwindSafe(|| Rule::parse(&text))).map_err(panic_msg);
        let x = match &e {
            Err(p) => json!({"panic": p}),
            Ok(Err(_)) => json!({"ok": false}),
            Ok(Ok(t)) => json!({"ok": true, "t": expr_to_model(t)}),
        };
        recs.push(json!({"text": cps(&text), "x": x, "rule": rule_model(&r), "shown": text}));
    }
    recs
}

#[allow(dead_code)]
fn unused(_: Value, _: Ty) {}
