//! Recorder for C18b: concurrent evaluations of one shared ruleset on real threads.  It lives in the
//! probes crate because it needs the evaluation futures to be Send (tokio::spawn): if they are not,
//! only this binary fails to build (and probe_send reports the violation), not the whole harness.
//!   threads_rec <cases> <n_threads> <n_evals> <trace.ndjson> <report.json> [modes, comma separated]
#[path = "../../../src/exec.rs"]
mod exec;
#[path = "../../../src/model.rs"]
mod model;
#[path = "../../../src/ops.rs"]
mod ops;
#[path = "../../../src/report.rs"]
mod report;
#[path = "../../../src/scenario.rs"]
mod scenario;
#[path = "../../../src/ser.rs"]
mod ser;
#[path = "../threads.rs"]
mod threads;

use serde_json::Value as J;
use std::io::{BufRead, BufReader};

fn for_each_case(path: &str, mut f: impl FnMut(&J)) -> Result<usize, String> {
    let file = std::fs::File::open(path).map_err(|e| format!("{path}: {e}"))?;
    let mut n = 0;
    for line in BufReader::new(file).lines() {
        let line = line.map_err(|e| e.to_string())?;
        let text: String = if line.starts_with("\"CASE ") {
            let s: String = serde_json::from_str(&line).map_err(|e| format!("bad CASE literal: {e}"))?;
            s[5..].to_string()
        } else if line.starts_with('{') {
            line
        } else {
            continue;
        };
        let j: J = serde_json::from_str(&text).map_err(|e| format!("bad case json: {e}"))?;
        f(&j);
        n += 1;
    }
    Ok(n)
}

fn run(args: &[String]) -> Result<i32, String> {
    let input = args.get(1).ok_or("cases")?;
    let n_threads: usize = args.get(2).ok_or("n_threads")?.parse().map_err(|_| "n_threads")?;
    let n_evals: usize = args.get(3).ok_or("n_evals")?.parse().map_err(|_| "n_evals")?;
    let trace = args.get(4).ok_or("trace path")?;
    let out = args.get(5).ok_or("report path")?;
    let mut seen = std::collections::BTreeSet::new();
    let mut rulesets: Vec<J> = Vec::new();
    for_each_case(input, |c| {
        let k = format!("{}{}", c["env"], c["rules"]);
        if seen.insert(k) {
            rulesets.push(c.clone());
        }
    })?;
    let mut rep = report::Report::default();
    let mut lines = String::new();
    let mut written = std::collections::BTreeSet::new();
    for case in &rulesets {
        // tokio: n_threads workers; tokio4: 4 workers and ten times the evaluations (many suspended evaluations per
        // worker); std: one hand-rolled executor per thread; migrate: started on one thread, completed on another
        // hammer: back-to-back evaluations of the call-free rules on every thread; burst: all threads start an evaluation
        // of a 600-call ruleset at the same instant
        let only: Option<&str> = args.get(6).map(|s| s.as_str());
        for mode in ["tokio", "tokio4", "std", "migrate", "hammer", "hammer_calls", "burst"] {
            if let Some(o) = only {
                if !o.split(',').any(|m| m == mode) {
                    continue;
                }
            }
            let n = match mode { "tokio4" => n_evals * 10, "migrate" => n_evals * 3, "hammer" => n_evals * 150, "hammer_calls" => n_evals * 15, "burst" => 3, _ => n_evals };
            let r = threads::run_case(case, n_threads, n, mode)?;
            rep.evaluations += r.evaluations;
            for m in r.mismatches {
                rep.mismatch("threads:outcomes", m);
            }
            for rec in r.records {
                rep.case_ok(true, || serde_json::json!({"evaluation": rec["id"], "mode": rec["mode"], "calls": rec["calls"]}));
                // identical observations (same ruleset, input, outcomes, invocations) are validated once
                let key = format!("{}|{}|{}|{}|{}", rec["env"], rec["rules"], rec["input"], rec["x"], rec["calls"]);
                if written.insert(key) {
                    lines.push_str(&serde_json::to_string(&rec).unwrap());
                    lines.push('\n');
                }
            }
        }
    }
    std::fs::write(trace, lines).map_err(|e| e.to_string())?;
    std::fs::write(out, serde_json::to_string(&rep.to_json()).unwrap()).map_err(|e| e.to_string())?;
    println!("{} rulesets, {} concurrent evaluations, {} mismatches", rulesets.len(), rep.evaluations, rep.mismatch_count);
    Ok(if rep.mismatch_count > 0 { 1 } else { 0 })
}

fn main() {
    std::panic::set_hook(Box::new(|_| {}));
    let args: Vec<String> = std::env::args().collect();
    let code = match run(&args) {
        Ok(c) => c,
        Err(e) => {
            eprintln!("threads_rec: tool error: {e}");
            2
        }
    };
    std::process::exit(code);
}
