//! C18a probe: the property's first sentence as compile-time assertions.  Compiles iff a built
//! ruleset, its rules, expressions, values, symbols and errors are Send + Sync and the futures
//! returned by expression and ruleset evaluation are Send (for shareable inputs).
use reval::prelude::*;
use std::collections::BTreeMap;

fn assert_send_sync<T: Send + Sync>() {}
fn assert_send<T: Send>(_: &T) {}

fn main() {
    assert_send_sync::<RuleSet>();
    assert_send_sync::<Rule>();
    assert_send_sync::<Expr>();
    assert_send_sync::<reval::expr::Index>();
    assert_send_sync::<Value>();
    assert_send_sync::<Symbols>();
    assert_send_sync::<reval::Error>();
    assert_send_sync::<reval::parse::Error>();
    assert_send_sync::<reval::ruleset::Outcome<'static>>();
    assert_send_sync::<Builder>();

    let rs: RuleSet = ruleset().with_rule(Rule::new("r", BTreeMap::new(), Expr::value(1))).unwrap().build();
    let input = Value::None;
    let serializable = 5u8;
    let e = Expr::value(1);
    assert_send(&e.evaluate(&input));
    assert_send(&rs.evaluate(&serializable));
    assert_send(&rs.evaluate_value(&input));

    // and therefore evaluations can be spawned on a multi-threaded executor
    let rs = std::sync::Arc::new(rs);
    let rt = tokio::runtime::Builder::new_multi_thread().worker_threads(2).build().unwrap();
    let h = {
        let rs = rs.clone();
        rt.spawn(async move { rs.evaluate_value(&Value::None).await.map(|o| o.len()) })
    };
    assert_eq!(rt.block_on(h).unwrap().unwrap(), 1);
}
