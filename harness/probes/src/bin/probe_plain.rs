//! C18a precondition probe: uses exactly the API that probe_send uses, on one thread, WITHOUT any
//! Send/Sync requirement.  If this does not compile the API changed (tool error, no verdict).
use reval::prelude::*;
use std::collections::BTreeMap;

fn use_value<T>(_: &T) {}

fn main() {
    let rs: RuleSet = ruleset().with_rule(Rule::new("r", BTreeMap::new(), Expr::value(1))).unwrap().build();
    let input = Value::None;
    let serializable = 5u8;
    let e = Expr::value(1);
    let _f1 = e.evaluate(&input);
    let _f2 = rs.evaluate(&serializable);
    let _f3 = rs.evaluate_value(&input);
    use_value(&rs);
    use_value(&Symbols::default());
    use_value(&reval::Error::InvalidType);
    let _: Option<reval::ruleset::Outcome> = None;
    let _: Option<reval::parse::Error> = None;
}
