//! Recorder `threads` (C18b): N concurrent evaluations of ONE shared ruleset on real threads
//! (a multi-threaded tokio runtime, and std::thread::scope with one hand-rolled executor per
//! thread).  Every evaluation's events carry its id (task-local) and a global atomic sequence
//! number taken inside the user function; one trace record per evaluation is written for TLC
//! (RuleSetTrace), and the outcomes are compared with a sequential run.

use crate::exec::*;
use crate::model::*;
use crate::scenario::build_ruleset;
use reval::prelude::*;
use serde_json::{json, Value as J};
use std::sync::Arc;

fn outcomes_model(outs: &[reval::ruleset::Outcome]) -> J {
    J::Array(
        outs.iter()
            .map(|o| {
                let obs = match &o.value {
                    Ok(v) => Obs::Ok(v.clone()),
                    Err(e) => classify(e),
                };
                json!({"rule": cps(o.rule.name()), "o": obs_to_model(&obs)})
            })
            .collect(),
    )
}

fn rules_of(case: &J) -> Result<Vec<(String, Expr)>, String> {
    case["rules"].as_array().ok_or("rules")?.iter().map(|r| Ok((uncps(&r["name"])?, expr_from_model(&r["expr"])?))).collect()
}

pub struct ThreadsResult {
    pub records: Vec<J>,
    pub mismatches: Vec<J>,
    pub evaluations: usize,
}

/// run `n_evals` evaluations of the ruleset of `case` (env + rules) concurrently; inputs {a: 1 + id % 3}
fn has_call(e: &J) -> bool {
    if e["k"] == "call" {
        return true;
    }
    e["a"].as_array().map(|a| a.iter().any(has_call)).unwrap_or(false) || e["kv"].as_array().map(|a| a.iter().any(|kv| has_call(&kv[1]))).unwrap_or(false)
}

/// the rules a mode evaluates: all of the case's; for `hammer` only those that call no function (as many truly parallel
/// evaluations per second as possible); for `burst` two rules of 300 calls each (cacheable f, non-cacheable g)
fn rules_for(case: &J, mode: &str) -> Result<(Vec<(String, Expr)>, J), String> {
    match mode {
        "hammer" => {
            let keep: Vec<J> = case["rules"].as_array().ok_or("rules")?.iter().filter(|r| !has_call(&r["expr"])).cloned().collect();
            let rules = keep.iter().map(|r| Ok((uncps(&r["name"])?, expr_from_model(&r["expr"])?))).collect::<Result<Vec<_>, String>>()?;
            Ok((rules, J::Array(keep)))
        }
        "burst" => {
            let mk = |f: &str| Expr::Vec((1..=300).map(|k| Expr::func(f, Expr::add(Expr::reff("a"), Expr::value(k as i128)))).collect());
            let rules = vec![("b1".to_string(), mk("f")), ("b2".to_string(), mk("g")), ("b3".to_string(), Expr::func("f", Expr::add(Expr::reff("a"), Expr::value(1))))];
            let j = J::Array(rules.iter().map(|(n, e)| json!({"name": cps(n), "expr": expr_to_model(e)})).collect());
            Ok((rules, j))
        }
        _ => Ok((rules_of(case)?, case["rules"].clone())),
    }
}

pub fn run_case(case: &J, n_threads: usize, n_evals: usize, mode: &str) -> Result<ThreadsResult, String> {
    let (mode_rules, rules_j) = rules_for(case, mode)?;
    let built = build_ruleset(&case["env"], mode_rules.clone())?;
    let rs = Arc::new(built.ruleset);
    let log = built.log.clone();
    // {a: 1 + id % 3, s: one of five timestamps}: 15 different inputs
    const DATES: [&str; 5] = ["1970-01-01T00:00:00Z", "2015-07-30T03:26:13Z", "2015-07-30T03:26:13.5+02:00", "1969-12-31T23:59:59.999999999Z", "2000-02-29T12:00:00-05:30"];
    const NI: usize = 15;
    // (burst: the 600-call rules read `a` only, so three inputs - the trace holds one record per distinct observation)
    let burst = mode == "burst";
    let input_of = move |id: usize| Value::Map([("a".to_string(), Value::Int(1 + (id % 3) as i128)), ("s".to_string(), Value::String(DATES[if burst { 0 } else { id % 5 }].to_string()))].into_iter().collect());
    // sequential reference (its own ruleset instance so that the log is separate)
    let seq_built = build_ruleset(&case["env"], mode_rules.clone())?;
    let mut reference = Vec::new();
    for id in 0..NI {
        let outs = block_on(seq_built.ruleset.evaluate_value(&input_of(id))).map_err(|p| format!("sequential run panicked: {p}"))?.map_err(|e| e.to_string())?;
        reference.push(outcomes_model(&outs));
    }
    let mut results: Vec<(usize, J)> = Vec::new();
    match mode {
        "migrate" => {
            // every evaluation is started (polled once) on thread A and completed on thread B: whatever an evaluation
            // leaves behind on the thread it started on meets every later evaluation
            type Fut = std::pin::Pin<Box<dyn std::future::Future<Output = Result<J, String>> + Send>>;
            let (tx, rx) = std::sync::mpsc::channel::<(usize, Result<Fut, J>)>();
            let rs_a = rs.clone();
            let a = std::thread::spawn(move || {
                for id in 1..=n_evals {
                    let rs = rs_a.clone();
                    let mut fut: Fut = Box::pin(EV.scope(id, async move {
                        let input = input_of(id);
                        let r = rs.evaluate_value(&input).await;
                        r.map(|outs| outcomes_model(&outs)).map_err(|e| e.to_string())
                    }));
                    let first = {
                        let mut cx = std::task::Context::from_waker(std::task::Waker::noop());
                        std::panic::catch_unwind(std::panic::AssertUnwindSafe(|| fut.as_mut().poll(&mut cx))).map_err(panic_msg)
                    };
                    let msg = match first {
                        Err(p) => Err(json!({"panic": p})),
                        Ok(std::task::Poll::Ready(Ok(x))) => Err(x),
                        Ok(std::task::Poll::Ready(Err(e))) => Err(json!({"whole_error": e})),
                        Ok(std::task::Poll::Pending) => Ok(fut),
                    };
                    if tx.send((id, msg)).is_err() { break; }
                }
            });
            let b = std::thread::spawn(move || {
                let mut out = Vec::new();
                for (id, msg) in rx {
                    match msg {
                        Err(x) => out.push((id, x)),
                        Ok(fut) => out.push((id, match block_on(fut) { Ok(Ok(x)) => x, Ok(Err(e)) => json!({"whole_error": e}), Err(p) => json!({"panic": p}) })),
                    }
                }
                out
            });
            // (single evaluations are polled under catch_unwind; a thread that still dies - a panic in a destructor while
            // the future is dropped - is an observation about the code under test, not a tool error)
            let a_died = a.join().is_err();
            match b.join() {
                Ok(r) if !a_died => results = r,
                _ => {
                    return Ok(ThreadsResult { evaluations: n_evals, records: Vec::new(),
                        mismatches: vec![json!({"why": "a thread driving evaluations that move between threads died with a panic that could not be caught", "mode": mode})] });
                }
            }
        }
        "hammer" | "hammer_calls" => {
            // (hammer_calls: the full rules, user functions included, on rulesets whose functions never suspend)
            if mode == "hammer_calls" && case["env"]["funcs"].as_array().map(|fs| fs.iter().any(|f| f["suspend"].as_u64().unwrap_or(0) > 0)).unwrap_or(true) {
                return Ok(ThreadsResult { evaluations: 0, records: Vec::new(), mismatches: Vec::new() });
            }
            let log_h = log.clone();
            // n_evals evaluations per thread, back to back, no suspension: only the comparison with the sequential run
            let bad = std::sync::Mutex::new(Vec::new());
            std::thread::scope(|sc| {
                for t in 0..n_threads {
                    let rs = rs.clone();
                    let bad = &bad;
                    let reference = &reference;
                    let log_h = log_h.clone();
                    sc.spawn(move || {
                        for k in 0..n_evals {
                            let id = 1 + t * n_evals + k;
                            let input = input_of(id);
                            let x = match block_on(rs.evaluate_value(&input)) {
                                Ok(Ok(outs)) => outcomes_model(&outs),
                                Ok(Err(e)) => json!({"whole_error": e.to_string()}),
                                Err(p) => json!({"panic": p}),
                            };
                            if x != reference[id % NI] {
                                bad.lock().unwrap().push((id, x));
                                return;
                            }
                            if k % 256 == 255 {
                                log_h.entries.lock().unwrap().clear();       // (the log is not used in this mode)
                            }
                        }
                    });
                }
            });
            let bad = bad.into_inner().unwrap();
            let mismatches = bad.iter().map(|(id, x)| json!({"why": format!("evaluation {id} (one of {} back-to-back evaluations on each of {n_threads} threads) differs from the sequential run", n_evals), "mode": mode, "concurrent": x, "sequential": reference[id % NI]})).collect();
            return Ok(ThreadsResult { evaluations: n_threads * n_evals, records: Vec::new(), mismatches });
        }
        "burst" => {
            // all threads start their evaluation at the same instant (barrier), n_evals rounds
            let collected = std::sync::Mutex::new(Vec::new());
            let barrier = std::sync::Barrier::new(n_threads);
            std::thread::scope(|sc| {
                for t in 0..n_threads {
                    let rs = rs.clone();
                    let collected = &collected;
                    let barrier = &barrier;
                    sc.spawn(move || {
                        for k in 0..n_evals {
                            let id = 1 + k * n_threads + t;
                            let input = input_of(id);
                            barrier.wait();
                            let r = block_on(EV.scope(id, rs.evaluate_value(&input)));
                            let x = match r {
                                Ok(Ok(outs)) => outcomes_model(&outs),
                                Ok(Err(e)) => json!({"whole_error": e.to_string()}),
                                Err(p) => json!({"panic": p}),
                            };
                            collected.lock().unwrap().push((id, x));
                        }
                    });
                }
            });
            results = collected.into_inner().unwrap();
            results.sort_by_key(|r| r.0);
        }
        "tokio" | "tokio4" => {
            let n_threads = if mode == "tokio4" { 4 } else { n_threads };
            let rt = tokio::runtime::Builder::new_multi_thread().worker_threads(n_threads).build().map_err(|e| e.to_string())?;
            let hs: Vec<_> = (1..=n_evals)
                .map(|id| {
                    let rs = rs.clone();
                    rt.spawn(EV.scope(id, async move {
                        let input = input_of(id);
                        let r = rs.evaluate_value(&input).await;
                        r.map(|outs| outcomes_model(&outs)).map_err(|e| e.to_string())
                    }))
                })
                .collect();
            for (k, h) in hs.into_iter().enumerate() {
                let id = k + 1;
                match rt.block_on(h) {
                    Ok(Ok(x)) => results.push((id, x)),
                    Ok(Err(e)) => results.push((id, json!({"whole_error": e}))),
                    Err(e) => results.push((id, json!({"panic": e.to_string()}))),
                }
            }
        }
        _ => {
            // std threads: each thread drives its evaluations with the hand-rolled executor
            let per = (n_evals + n_threads - 1) / n_threads;
            let collected = std::sync::Mutex::new(Vec::new());
            std::thread::scope(|sc| {
                for t in 0..n_threads {
                    let rs = rs.clone();
                    let collected = &collected;
                    sc.spawn(move || {
                        for k in 0..per {
                            let id = 1 + t * per + k;
                            if id > n_evals {
                                break;
                            }
                            let input = input_of(id);
                            let r = block_on(EV.scope(id, rs.evaluate_value(&input)));
                            let x = match r {
                                Ok(Ok(outs)) => outcomes_model(&outs),
                                Ok(Err(e)) => json!({"whole_error": e.to_string()}),
                                Err(p) => json!({"panic": p}),
                            };
                            collected.lock().unwrap().push((id, x));
                        }
                    });
                }
            });
            results = collected.into_inner().unwrap();
            results.sort_by_key(|r| r.0);
        }
    }
    // one record per evaluation: outcomes and the projection of the global log (already in sequence order)
    let entries = log.snapshot();
    let mut records = Vec::new();
    let mut mismatches = Vec::new();
    for (id, x) in &results {
        let calls: Vec<J> = entries.iter().filter(|e| e.ev == *id).map(|e| json!({"f": cps(&e.func), "arg": to_model(&e.arg)})).collect();
        if x.get("panic").is_some() || x.get("whole_error").is_some() {
            mismatches.push(json!({"why": format!("evaluation {id} did not return outcomes: {x}"), "mode": mode}));
            continue;
        }
        if *x != reference[id % NI] {
            mismatches.push(json!({"why": format!("evaluation {id} returned outcomes that differ from the sequential run"), "mode": mode, "concurrent": x, "sequential": reference[id % NI]}));
        }
        records.push(json!({"env": case["env"], "rules": rules_j, "input": to_model(&input_of(*id)), "x": x, "calls": calls, "id": id, "mode": mode}));
    }
    let unattributed = entries.iter().filter(|e| e.ev == 0).count();
    if unattributed > 0 {
        return Err(format!("{unattributed} invocations without an evaluation id"));
    }
    Ok(ThreadsResult { evaluations: results.len(), records, mismatches })
}
